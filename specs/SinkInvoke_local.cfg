SPECIFICATION Spec
CONSTANTS
 Inv <- MC_Inv
 SinkOf <- MC_SinkOf
 Out <- MC_Out
 Variant = "local"
INVARIANTS ExportBad OwnOutcome
CHECK_DEADLOCK FALSE
