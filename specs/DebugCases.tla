----------------------------- MODULE DebugCases -----------------------------
(* The case universe of C16 written by TLC (direction A). *)
EXTENDS DebugCmd, Json, IOUtils, SequencesExt
ASSUME PrintT(<<"CASES", Cardinality(Cases), Cardinality(Lines)>>)
ASSUME \A cs \in Cases : cs.exp \in {"value", "error", "any"}
ASSUME ndJsonSerialize(IOEnv.VERIF_OUT, SetToSeq(Cases))
=============================================================================
