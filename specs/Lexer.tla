------------------------------- MODULE Lexer -------------------------------
(***************************************************************************)
(* parser/lexer.go (C18): how the lexer tracks line and column.            *)
(*                                                                         *)
(* The input is a sequence of character classes                            *)
(*   "c" code character   "s" space / tab / CR   "n" line feed             *)
(*   "h" #                "q" quote              "o" the two characters /* *)
(*   "e" the two characters */                                             *)
(* ("o" and "e" occupy two bytes).  The lexer keeps pos (bytes consumed),  *)
(* line (line feeds seen) and lastnl (offset behind the last line feed it  *)
(* accounted for) and stamps every token at emit time with                 *)
(* line + 1 and start - lastnl + 1.  Each branch of the code that consumes *)
(* a line feed is one place of this model:                                 *)
(*   skipWhiteSpace, lexValue (strings), lexComment block comments,        *)
(*   lexComment line comments.                                             *)
(* Variant "found": the line comment branch counts the line feed it        *)
(* consumes but does not move lastnl (the code).  Variant "ideal": it      *)
(* does.                                                                   *)
(*                                                                         *)
(* Property level: the stamp of a token equals the position computed from  *)
(* its byte offset alone: line = 1 + line feeds before it, column = 1 +    *)
(* bytes since the last line feed before it.                               *)
(***************************************************************************)
EXTENDS Integers, Sequences, FiniteSets, TLC

CONSTANTS N, Variant
Classes == {"c", "s", "n", "h", "q", "o", "e"}
Width(x) == IF x \in {"o", "e"} THEN 2 ELSE 1

VARIABLES input, k,      \* next class index
          pos, line, lastnl,
          toks           \* emitted tokens: [off, line, col, kind]
vars == <<input, k, pos, line, lastnl, toks>>

Init == /\ input \in UNION {[1..m -> Classes] : m \in 0..N}
        /\ k = 1 /\ pos = 0 /\ line = 0 /\ lastnl = 0 /\ toks = <<>>

Len0 == Len(input)
Cl(j) == IF j <= Len0 THEN input[j] ELSE "eof"
Emit(off, kind) == Append(toks, [off |-> off, line |-> line + 1, col |-> off - lastnl + 1, kind |-> kind])

\* consume classes j..(m-1) while Keep holds; returns <<next index, bytes, line feeds, offset behind last lf or -1>>
RECURSIVE Scan(_, _, _, _, _)
Scan(j, p, nls, lnl, Stop) ==
  IF j > Len0 \/ Cl(j) \in Stop THEN <<j, p, nls, lnl>>
  ELSE Scan(j + 1, p + Width(Cl(j)), IF Cl(j) = "n" THEN nls + 1 ELSE nls,
            IF Cl(j) = "n" THEN p + 1 ELSE lnl, Stop)

IsQuote == {"q"}
IsEnd == {"e"}
IsLF == {"n"}
NotCode == Classes \ {"c", "e"}     \* "*/" outside a comment is just two symbol characters

Step ==
  /\ k <= Len0
  /\ LET x == Cl(k) IN
     CASE x = "s" -> /\ k' = k + 1 /\ pos' = pos + 1 /\ UNCHANGED <<line, lastnl, toks>>
       [] x = "n" -> /\ k' = k + 1 /\ pos' = pos + 1 /\ line' = line + 1 /\ lastnl' = pos + 1 /\ UNCHANGED toks
       [] x \in {"c", "e"} ->            \* a word / number / symbol token: stamped at its first byte
            LET r == Scan(k, pos, 0, -1, NotCode) IN
            /\ toks' = Emit(pos, "word") /\ k' = r[1] /\ pos' = r[2] /\ UNCHANGED <<line, lastnl>>
       [] x = "q" ->                     \* a string: stamped at the opening quote; line feeds inside counted afterwards
            LET r == Scan(k + 1, pos + 1, 0, -1, IsQuote) IN
            /\ toks' = Emit(pos, IF r[1] > Len0 THEN "error" ELSE "string")
            /\ k' = r[1] + 1 /\ pos' = r[2] + 1
            /\ line' = line + r[3] /\ lastnl' = IF r[4] >= 0 THEN r[4] ELSE lastnl
       [] x = "o" ->                     \* block comment: stamped at its first content byte
            LET r == Scan(k + 1, pos + 2, 0, -1, IsEnd) IN
            /\ toks' = Emit(pos + 2, IF r[1] > Len0 THEN "error" ELSE "pre")
            /\ k' = r[1] + 1 /\ pos' = r[2] + 2
            /\ line' = line + r[3] /\ lastnl' = IF r[4] >= 0 THEN r[4] ELSE lastnl
       [] x = "h" ->                     \* line comment: content up to and including the line feed
            LET r == Scan(k + 1, pos + 1, 0, -1, IsLF) IN
            /\ toks' = Emit(pos + 1, "post")
            /\ IF r[1] > Len0
                 THEN /\ k' = r[1] /\ pos' = r[2] /\ UNCHANGED <<line, lastnl>>
                 ELSE /\ k' = r[1] + 1 /\ pos' = r[2] + 1 /\ line' = line + 1
                      /\ lastnl' = IF Variant = "ideal" THEN r[2] + 1 ELSE lastnl
  /\ UNCHANGED input

Spec == Init /\ [][Step]_vars

(* ---- property level ---------------------------------------------------------------------- *)
\* byte image of the input: 10 for a line feed, 0 for any other byte
RECURSIVE Bytes(_)
Bytes(j) == IF j > Len0 THEN <<>>
            ELSE (IF Cl(j) = "n" THEN <<10>> ELSE IF Width(Cl(j)) = 2 THEN <<0, 0>> ELSE <<0>>) \o Bytes(j + 1)
Src == Bytes(1)
LFsBefore(off) == {j \in 1..off : Src[j] = 10}
TrueLine(off) == 1 + Cardinality(LFsBefore(off))
Max(S) == CHOOSE x \in S : \A y \in S : y <= x
TrueCol(off) == off - (IF LFsBefore(off) = {} THEN 0 ELSE Max(LFsBefore(off))) + 1

TrueLines == \A j \in 1..Len(toks) : toks[j].line = TrueLine(toks[j].off)
TrueColumns == \A j \in 1..Len(toks) : toks[j].col = TrueCol(toks[j].off)

\* the only deviation of the code: the column of tokens on a line whose preceding line feed was consumed by a line comment
\* (the known finding).  AfterHashLF(off): the last line feed before off ended a line comment.
RECURSIVE InHashAt(_, _, _)
InHashAt(j, p, target) ==   \* is byte offset target (a line feed) inside a line comment; scan classes from j at byte p in code mode
  IF j > Len0 THEN FALSE
  ELSE LET x == Cl(j) IN
       IF x = "h" THEN LET r == Scan(j + 1, p + 1, 0, -1, IsLF) IN
                       IF r[1] > Len0 THEN FALSE
                       ELSE IF r[2] + 1 = target THEN TRUE ELSE InHashAt(r[1] + 1, r[2] + 1, target)
       ELSE IF x = "q" THEN LET r == Scan(j + 1, p + 1, 0, -1, IsQuote) IN InHashAt(r[1] + 1, r[2] + 1, target)
       ELSE IF x = "o" THEN LET r == Scan(j + 1, p + 2, 0, -1, IsEnd) IN InHashAt(r[1] + 1, r[2] + 2, target)
       ELSE InHashAt(j + 1, p + Width(x), target)
AfterHashLF(off) == LFsBefore(off) # {} /\ InHashAt(1, 0, Max(LFsBefore(off)))
TrueColumnsExceptAfterLineComment ==
  \A j \in 1..Len(toks) : toks[j].col = TrueCol(toks[j].off) \/ AfterHashLF(toks[j].off)
=============================================================================
