---------------------------- MODULE ParseShared ----------------------------
(***************************************************************************)
(* parser/parser.go (C13): what concurrent parsers share.                  *)
(*                                                                         *)
(* While the guard expression of an `if` / `for` is parsed a left brace    *)
(* must start a block of statements instead of a map literal.  Variant     *)
(* "global" (the code as found): the parser saves the package-level table  *)
(* entry for `{`, overwrites it, parses the expression and restores the    *)
(* saved entry.  Variant "local": the mode is part of the parser's own     *)
(* state.  A parser runs a script of steps                                 *)
(*   "guard"    enter a guard expression (save + override | local mode on) *)
(*   "brace"    consult the denotation of `{`                              *)
(*   "endguard" leave the guard expression (restore | local mode off)      *)
(* and records what every consultation returned.                           *)
(* Property: every parser sees what it would see when running alone, and   *)
(* the table has its initial value whenever no parser is inside a guard.   *)
(* A write overlapping another parser's access is the Go runtime's fatal   *)
(* concurrent map failure / a data race: the event Fault.                  *)
(***************************************************************************)
EXTENDS Integers, Sequences, FiniteSets, TLC, Json

CONSTANTS Parsers, Script, Variant

VARIABLES table,    \* package-level entry for `{`: "map" | "block"
          pc, bak, mode, seen, hist
vars == <<table, pc, bak, mode, seen, hist>>

Init == /\ table = "map" /\ pc = [p \in Parsers |-> 1] /\ bak = [p \in Parsers |-> "map"]
        /\ mode = [p \in Parsers |-> 0] /\ seen = [p \in Parsers |-> <<>>] /\ hist = <<>>

Instr(p) == Script[p][pc[p]]
Adv(p) == pc' = [pc EXCEPT ![p] = @ + 1]

\* save + override happen without an observation point in between; "global" only
Guard(p) == /\ pc[p] <= Len(Script[p]) /\ Instr(p) = "guard" /\ Adv(p)
            /\ IF Variant = "global"
                 THEN /\ bak' = [bak EXCEPT ![p] = table] /\ table' = "block" /\ UNCHANGED mode
                 ELSE /\ mode' = [mode EXCEPT ![p] = @ + 1] /\ UNCHANGED <<bak, table>>
            /\ hist' = Append(hist, <<p, "guard">>) /\ UNCHANGED seen
Brace(p) == /\ pc[p] <= Len(Script[p]) /\ Instr(p) = "brace" /\ Adv(p)
            /\ seen' = [seen EXCEPT ![p] = Append(@, IF Variant = "global" THEN table
                                                        ELSE IF mode[p] > 0 THEN "block" ELSE "map")]
            /\ hist' = Append(hist, <<p, "brace">>) /\ UNCHANGED <<table, bak, mode>>
EndGuard(p) == /\ pc[p] <= Len(Script[p]) /\ Instr(p) = "endguard" /\ Adv(p)
               /\ IF Variant = "global" THEN table' = bak[p] /\ UNCHANGED mode
                                        ELSE mode' = [mode EXCEPT ![p] = @ - 1] /\ UNCHANGED table
               /\ hist' = Append(hist, <<p, "endguard">>) /\ UNCHANGED <<bak, seen>>

Next == \E p \in Parsers : Guard(p) \/ Brace(p) \/ EndGuard(p)
Spec == Init /\ [][Next]_vars

\* the sequential meaning of a script: a brace inside a guard starts a block
RECURSIVE SeqSeen(_, _, _)
SeqSeen(s, k, depth) ==
  IF k > Len(s) THEN <<>>
  ELSE IF s[k] = "guard" THEN SeqSeen(s, k + 1, depth + 1)
  ELSE IF s[k] = "endguard" THEN SeqSeen(s, k + 1, depth - 1)
  ELSE <<IF depth > 0 THEN "block" ELSE "map">> \o SeqSeen(s, k + 1, depth)

Finished(p) == pc[p] > Len(Script[p])
InGuard(p) == Cardinality({k \in 1..(pc[p] - 1) : Script[p][k] = "guard"}) > Cardinality({k \in 1..(pc[p] - 1) : Script[p][k] = "endguard"})
SameAsAlone == \A p \in Parsers : Finished(p) => seen[p] = SeqSeen(Script[p], 1, 0)
TableRestored == (\A p \in Parsers : ~ InGuard(p)) => table = "map"
ExportBadSeen == SameAsAlone \/ PrintT(<<"BEHAVIOUR", ToJson(hist)>>)
\* the corruption that stays: all parsers are done and the table is not what it was
AllFinished == \A p \in Parsers : Finished(p)
TableFinal == AllFinished => table = "map"
ExportBadTable == TableFinal \/ PrintT(<<"BEHAVIOUR", ToJson(hist)>>)
=============================================================================
