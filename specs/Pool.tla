------------------------------- MODULE Pool -------------------------------
(***************************************************************************)
(* Implementation-level specification of engine/pool/threadpool.go.        *)
(*                                                                         *)
(* One action = what one goroutine does between two consecutive gates      *)
(* (verifhook points) of the code; the values of wpc / cst ARE the gate    *)
(* names at which the goroutine is parked.  Property-level statements of   *)
(* C09 are the invariants / temporal formulas at the end.                  *)
(*                                                                         *)
(* Variant "code": the repaired protocol - an idle worker re-checks queue  *)
(* and kill counter under the condition's lock, Signal and the shrinking   *)
(* Broadcast are sent under that lock; a worker which takes a stop request *)
(* leaves the worker map in the same critical section and a resize cancels *)
(* what is left of an earlier stop request.  The other variants are the    *)
(* protocol as found (see Guarded / ResizeFix below).                      *)
(***************************************************************************)
EXTENDS Integers, Sequences, FiniteSets, TLC

CONSTANTS MaxW,       \* worker ids are 1..MaxW, handed out in order
          Tasks,      \* set of task ids
          Children,   \* [Tasks -> Seq(Tasks)] tasks a task submits while it runs
          Needs,      \* [Tasks -> SUBSET Tasks] tasks that must have been started before a task can end
          Clients,    \* set of client names
          Script,     \* [Clients -> Seq(op)]
          Variant,    \* "code" | "found-wakeup" | "found-resize" | "signal-if-first"
          RecordHist  \* keep the behaviour in hist (simulation / export only)

\* found-wakeup: unconditional Cond.Wait (lost wake-up).  found-resize: a resize neither cancels a
\* pending stop request of an earlier resize nor sees workers which already decided to stop.
\* signal-if-first: AddTask signals only when the queue was empty before the push ("a worker has
\* been woken already"): the second task of a burst stays queued while a worker sleeps.
Guarded == Variant # "found-wakeup"
ResizeFix == Variant # "found-resize"
SignalAlways == Variant # "signal-if-first"

W == 1..MaxW

VARIABLES queue,      \* Seq(Tasks): DefaultTaskQueue
          wmap,       \* workerMap (set of worker ids)
          idle,       \* workerIdleMap
          kill,       \* workerKill
          cw,         \* condition variable notify list (FIFO)
          woken,      \* waiters that were notified and have not yet run on
          nextW,      \* next worker id
          wpc, wdec, wgot, wtask, wsub,
          ci, cst, csamp,
          accepted, started, done, busy,   \* ghosts
          hist

vars == <<queue, wmap, idle, kill, cw, woken, nextW, wpc, wdec, wgot, wtask, wsub,
          ci, cst, csamp, accepted, started, done, busy, hist>>

view == <<queue, wmap, idle, kill, cw, woken, nextW, wpc, wdec, wgot, wtask, wsub,
          ci, cst, csamp, accepted, started, done, busy>>

NoTask == 0

Init ==
  /\ queue = <<>> /\ wmap = {} /\ idle = {} /\ kill = 0 /\ cw = <<>> /\ woken = {}
  /\ nextW = 1
  /\ wpc = [w \in W |-> "none"] /\ wdec = [w \in W |-> "idle"] /\ wgot = [w \in W |-> FALSE]
  /\ wtask = [w \in W |-> NoTask] /\ wsub = [w \in W |-> 0]
  /\ ci = [c \in Clients |-> 1] /\ cst = [c \in Clients |-> "ready"]
  /\ csamp = [c \in Clients |-> <<0, 0, 0, TRUE, TRUE>>]
  /\ accepted = {} /\ started = [t \in Tasks |-> 0] /\ done = {} /\ busy = {}
  /\ hist = <<>>

\* behaviour export: thread, action and the projection of the successor state that
\* ThreadPool.State() exposes (queue size, idle workers, all workers)
Log(th, a) == hist' = IF RecordHist
                        THEN Append(hist, <<th, a, Len(queue'), idle', wmap'>>)
                        ELSE hist

SeqToSet(s) == {s[i] : i \in 1..Len(s)}

(* ---- condition variable ------------------------------------------------ *)
SignalEffect ==
  IF cw # <<>> THEN /\ woken' = woken \cup {Head(cw)} /\ cw' = Tail(cw)
               ELSE UNCHANGED <<woken, cw>>
BroadcastEffect == /\ woken' = woken \cup SeqToSet(cw) /\ cw' = <<>>

(* ---- worker ------------------------------------------------------------ *)
\* pool.worker.head -> pool.getTask.kill : the kill decision under workerMapLock
W_Head(w) ==
  /\ wpc[w] = "head"
  /\ IF kill > 0 THEN /\ kill' = kill - 1 /\ wdec' = [wdec EXCEPT ![w] = "die"]
                      /\ wmap' = IF ResizeFix THEN wmap \ {w} ELSE wmap
     ELSE /\ kill' = kill /\ UNCHANGED wmap
          /\ wdec' = [wdec EXCEPT ![w] = IF kill = -1 THEN "drain" ELSE "idle"]
  /\ wpc' = [wpc EXCEPT ![w] = "kill"]
  /\ UNCHANGED <<queue, idle, cw, woken, nextW, wgot, wtask, wsub, ci, cst, csamp, accepted, started, done, busy>>
  /\ Log(w, "W_Head")

\* pool.getTask.kill -> pool.worker.exit | pool.getTask.pop : Pop under queueLock
W_Kill(w) ==
  /\ wpc[w] = "kill"
  /\ IF wdec[w] = "die"
       THEN /\ wpc' = [wpc EXCEPT ![w] = "exit"]
            /\ UNCHANGED <<queue, wgot, wtask, busy>>
       ELSE /\ wpc' = [wpc EXCEPT ![w] = "pop"]
            /\ IF queue # <<>>
                 THEN /\ wtask' = [wtask EXCEPT ![w] = Head(queue)]
                      /\ queue' = Tail(queue)
                      /\ wgot' = [wgot EXCEPT ![w] = TRUE]
                      /\ busy' = busy \cup {Head(queue)}
                 ELSE /\ wgot' = [wgot EXCEPT ![w] = FALSE]
                      /\ UNCHANGED <<queue, wtask, busy>>
  /\ UNCHANGED <<wmap, idle, kill, cw, woken, nextW, wdec, wsub, ci, cst, csamp, accepted, started, done>>
  /\ Log(w, "W_Kill")

\* pool.getTask.pop -> task.start | pool.worker.exit | pool.idle.reg
W_Pop(w) ==
  /\ wpc[w] = "pop"
  /\ IF wgot[w] THEN /\ wpc' = [wpc EXCEPT ![w] = "tstart"] /\ UNCHANGED idle
     ELSE IF wdec[w] = "drain" THEN /\ wpc' = [wpc EXCEPT ![w] = "exit"] /\ UNCHANGED idle
     ELSE /\ idle' = idle \cup {w} /\ wpc' = [wpc EXCEPT ![w] = "idlereg"]
  /\ UNCHANGED <<queue, wmap, kill, cw, woken, nextW, wdec, wgot, wtask, wsub, ci, cst, csamp, accepted, started, done, busy>>
  /\ Log(w, "W_Pop")

\* pool.idle.reg -> (blocked in Cond.Wait) | pool.idle.afterWake
W_IdleReg(w) ==
  /\ wpc[w] = "idlereg"
  /\ IF Guarded /\ (queue # <<>> \/ kill # 0)
       THEN /\ wpc' = [wpc EXCEPT ![w] = "afterwake"] /\ UNCHANGED cw
       ELSE /\ wpc' = [wpc EXCEPT ![w] = "inwait"] /\ cw' = Append(cw, w)
  /\ UNCHANGED <<queue, wmap, idle, kill, woken, nextW, wdec, wgot, wtask, wsub, ci, cst, csamp, accepted, started, done, busy>>
  /\ Log(w, "W_IdleReg")

\* a notified waiter leaves Cond.Wait and arrives at pool.idle.afterWake
W_Wake(w) ==
  /\ wpc[w] = "inwait" /\ w \in woken
  /\ woken' = woken \ {w}
  /\ wpc' = [wpc EXCEPT ![w] = "afterwake"]
  /\ UNCHANGED <<queue, wmap, idle, kill, cw, nextW, wdec, wgot, wtask, wsub, ci, cst, csamp, accepted, started, done, busy>>
  /\ Log(w, "W_Wake")

\* pool.idle.afterWake -> pool.worker.head : deregister from the idle map
W_AfterWake(w) ==
  /\ wpc[w] = "afterwake"
  /\ idle' = idle \ {w}
  /\ wpc' = [wpc EXCEPT ![w] = "head"]
  /\ UNCHANGED <<queue, wmap, kill, cw, woken, nextW, wdec, wgot, wtask, wsub, ci, cst, csamp, accepted, started, done, busy>>
  /\ Log(w, "W_AfterWake")

\* AddTask: Push and Signal in one critical section of the queue lock (the lock of the condition)
AddTaskEffect(t) == /\ queue' = Append(queue, t) /\ accepted' = accepted \cup {t}
                    /\ IF SignalAlways \/ queue = <<>> THEN SignalEffect ELSE UNCHANGED <<woken, cw>>

\* task.start -> task.child (the task is about to submit its first child) | task.end
W_TStart(w) ==
  /\ wpc[w] = "tstart"
  /\ started' = [started EXCEPT ![wtask[w]] = @ + 1]
  /\ IF Children[wtask[w]] = <<>>
       THEN /\ wpc' = [wpc EXCEPT ![w] = "tend"] /\ UNCHANGED wsub
       ELSE /\ wsub' = [wsub EXCEPT ![w] = 1] /\ wpc' = [wpc EXCEPT ![w] = "tchild"]
  /\ UNCHANGED <<queue, accepted, cw, woken, wmap, idle, kill, nextW, wdec, wgot, wtask, ci, cst, csamp, done, busy>>
  /\ Log(w, "W_TStart")

\* task.child -> AddTask(child) -> task.child (next child) | task.end
W_TChild(w) ==
  /\ wpc[w] = "tchild"
  /\ LET ch == Children[wtask[w]] IN
     /\ AddTaskEffect(ch[wsub[w]])
     /\ IF wsub[w] < Len(ch)
          THEN /\ wsub' = [wsub EXCEPT ![w] = @ + 1] /\ UNCHANGED wpc
          ELSE /\ wpc' = [wpc EXCEPT ![w] = "tend"] /\ UNCHANGED wsub
  /\ UNCHANGED <<wmap, idle, kill, nextW, wdec, wgot, wtask, ci, cst, csamp, started, done, busy>>
  /\ Log(w, "W_TChild")

\* task.end -> pool.worker.head; a task which needs other tasks blocks (inside the task, after its
\* last gate) until each of them has been started - the pool must start them on its other workers
W_TEnd(w) ==
  /\ wpc[w] = "tend"
  /\ \A t \in Needs[wtask[w]] : started[t] = 1
  /\ done' = done \cup {wtask[w]}
  /\ busy' = busy \ {wtask[w]}
  /\ wtask' = [wtask EXCEPT ![w] = NoTask]
  /\ wpc' = [wpc EXCEPT ![w] = "head"]
  /\ UNCHANGED <<queue, wmap, idle, kill, cw, woken, nextW, wdec, wgot, wsub, ci, cst, csamp, accepted, started>>
  /\ Log(w, "W_TEnd")

\* pool.worker.exit -> gone : removal from the worker map
W_Exit(w) ==
  /\ wpc[w] = "exit"
  /\ wmap' = wmap \ {w}
  /\ wpc' = [wpc EXCEPT ![w] = "gone"]
  /\ UNCHANGED <<queue, idle, kill, cw, woken, nextW, wdec, wgot, wtask, wsub, ci, cst, csamp, accepted, started, done, busy>>
  /\ Log(w, "W_Exit")

WorkerStep(w) == \/ W_Head(w) \/ W_Kill(w) \/ W_Pop(w) \/ W_IdleReg(w) \/ W_Wake(w)
                 \/ W_AfterWake(w) \/ W_TStart(w) \/ W_TChild(w) \/ W_TEnd(w) \/ W_Exit(w)

(* ---- clients ----------------------------------------------------------- *)
Op(c) == Script[c][ci[c]]
HasOp(c) == ci[c] <= Len(Script[c])
NextOp(c) == /\ ci' = [ci EXCEPT ![c] = @ + 1] /\ cst' = [cst EXCEPT ![c] = "ready"]
\* what the polling loops read (1..3) plus two ghosts: the truth about the pool at the sampling moment
Sample == <<Cardinality(wmap), Cardinality(idle), Len(queue),
            queue = <<>> /\ busy = {},
            queue = <<>> /\ wmap = {} /\ accepted \subseteq done>>

\* AddTask(t) first half
\* tail of SetWorkerCount: "for count > 0 && len(idle map) == 0 { gate; sleep }" - the gate
\* pool.setWorkers.idleWait is only reached while the condition holds, otherwise the call returns
ToIdleWait(c) ==
  IF Op(c).n > 0 /\ idle = {}
    THEN /\ cst' = [cst EXCEPT ![c] = "idlewait"] /\ UNCHANGED ci
    ELSE NextOp(c)

\* AddTask(t)
C_Add(c) ==
  /\ HasOp(c) /\ cst[c] = "ready" /\ Op(c).op = "add"
  /\ AddTaskEffect(Op(c).t)
  /\ NextOp(c)
  /\ UNCHANGED <<wmap, idle, kill, nextW, wpc, wdec, wgot, wtask, wsub, csamp, started, done, busy>>
  /\ Log(c, "C_Add")

\* SetWorkerCount(n, wait): read the count, then grow / start shrinking / nothing
C_Set(c) ==
  /\ HasOp(c) /\ cst[c] = "ready" /\ Op(c).op = "set"
  /\ LET n == Op(c).n  wc == Cardinality(wmap)
         k0 == IF ResizeFix /\ kill > 0 THEN 0 ELSE kill IN     \* an unfinished stop request is cancelled
     IF wc < n THEN
          /\ nextW + (n - wc) - 1 <= MaxW
          /\ kill' = 0
          /\ wmap' = wmap \cup (nextW .. (nextW + (n - wc) - 1))
          /\ wpc' = [w \in W |-> IF w \in nextW .. (nextW + (n - wc) - 1) THEN "head" ELSE wpc[w]]
          /\ nextW' = nextW + (n - wc)
          /\ cst' = [cst EXCEPT ![c] = "grown"] /\ UNCHANGED ci
     ELSE IF wc > n THEN
          /\ kill' = wc - n
          /\ cst' = [cst EXCEPT ![c] = "killset"]
          /\ UNCHANGED <<wmap, wpc, nextW, ci>>
     ELSE /\ ToIdleWait(c) /\ kill' = k0
          /\ UNCHANGED <<wmap, wpc, nextW>>
  /\ UNCHANGED <<queue, idle, cw, woken, wdec, wgot, wtask, wsub, csamp, accepted, started, done, busy>>
  /\ Log(c, "C_Set")

\* pool.setWorkers.kill -> pool.setWorkers.broadcast
C_SetBroadcast(c) ==
  /\ HasOp(c) /\ cst[c] = "killset"
  /\ BroadcastEffect
  /\ cst' = [cst EXCEPT ![c] = "bcast"]
  /\ UNCHANGED <<queue, wmap, idle, kill, nextW, wpc, wdec, wgot, wtask, wsub, ci, csamp, accepted, started, done, busy>>
  /\ Log(c, "C_SetBroadcast")

\* pool.setWorkers.broadcast -> first sample (wait) | idle wait
C_SetAfterBroadcast(c) ==
  /\ HasOp(c) /\ cst[c] = "bcast"
  /\ IF Op(c).wait
       THEN /\ csamp' = [csamp EXCEPT ![c] = Sample] /\ cst' = [cst EXCEPT ![c] = "setsample"] /\ UNCHANGED ci
       ELSE /\ ToIdleWait(c) /\ UNCHANGED csamp
  /\ UNCHANGED <<queue, wmap, idle, kill, cw, woken, nextW, wpc, wdec, wgot, wtask, wsub, accepted, started, done, busy>>
  /\ Log(c, "C_SetAfterBroadcast")

\* pool.setWorkers.sample: reached the count -> idle wait, else broadcast + sample again
C_SetSample(c) ==
  /\ HasOp(c) /\ cst[c] = "setsample"
  /\ IF csamp[c][1] = Op(c).n
       THEN /\ ToIdleWait(c) /\ UNCHANGED <<csamp, cw, woken>>
       ELSE /\ BroadcastEffect /\ csamp' = [csamp EXCEPT ![c] = Sample] /\ UNCHANGED <<cst, ci>>
  /\ UNCHANGED <<queue, wmap, idle, kill, nextW, wpc, wdec, wgot, wtask, wsub, accepted, started, done, busy>>
  /\ Log(c, "C_SetSample")

\* pool.setWorkers.grown -> idle wait
C_SetGrown(c) ==
  /\ HasOp(c) /\ cst[c] = "grown"
  /\ ToIdleWait(c)
  /\ UNCHANGED <<queue, wmap, idle, kill, cw, woken, nextW, wpc, wdec, wgot, wtask, wsub, csamp, accepted, started, done, busy>>
  /\ Log(c, "C_SetGrown")

\* final loop of SetWorkerCount: poll until one worker is idle (count > 0)
C_SetIdleWait(c) ==
  /\ HasOp(c) /\ cst[c] = "idlewait"
  /\ ToIdleWait(c)
  /\ UNCHANGED <<queue, wmap, idle, kill, cw, woken, nextW, wpc, wdec, wgot, wtask, wsub, csamp, accepted, started, done, busy>>
  /\ Log(c, "C_SetIdleWait")

\* WaitAll: Broadcast, sample
C_WaitAll(c) ==
  /\ HasOp(c) /\ cst[c] = "ready" /\ Op(c).op = "waitall"
  /\ BroadcastEffect
  /\ csamp' = [csamp EXCEPT ![c] = Sample]
  /\ cst' = [cst EXCEPT ![c] = "wasample"]
  /\ UNCHANGED <<queue, wmap, idle, kill, nextW, wpc, wdec, wgot, wtask, wsub, ci, accepted, started, done, busy>>
  /\ Log(c, "C_WaitAll")

WaitAllSatisfied(s) == s[1] = 0 \/ (s[1] = s[2] /\ s[3] = 0)

C_WaitAllSample(c) ==
  /\ HasOp(c) /\ cst[c] = "wasample"
  /\ IF WaitAllSatisfied(csamp[c])
       THEN /\ NextOp(c) /\ UNCHANGED <<csamp, cw, woken>>
       ELSE /\ BroadcastEffect /\ csamp' = [csamp EXCEPT ![c] = Sample] /\ UNCHANGED <<ci, cst>>
  /\ UNCHANGED <<queue, wmap, idle, kill, nextW, wpc, wdec, wgot, wtask, wsub, accepted, started, done, busy>>
  /\ Log(c, "C_WaitAllSample")

\* JoinAll: kill := -1
C_JoinAll(c) ==
  /\ HasOp(c) /\ cst[c] = "ready" /\ Op(c).op = "joinall"
  /\ kill' = -1
  /\ cst' = [cst EXCEPT ![c] = "joinset"]
  /\ UNCHANGED <<queue, wmap, idle, cw, woken, nextW, wpc, wdec, wgot, wtask, wsub, ci, csamp, accepted, started, done, busy>>
  /\ Log(c, "C_JoinAll")

JoinSatisfied(s) == s[1] = 0 /\ s[3] = 0

C_JoinSet(c) ==
  /\ HasOp(c) /\ cst[c] = "joinset"
  /\ BroadcastEffect
  /\ csamp' = [csamp EXCEPT ![c] = Sample]
  /\ cst' = [cst EXCEPT ![c] = "joinsample"]
  /\ UNCHANGED <<queue, wmap, idle, kill, nextW, wpc, wdec, wgot, wtask, wsub, ci, accepted, started, done, busy>>
  /\ Log(c, "C_JoinSet")

C_JoinSample(c) ==
  /\ HasOp(c) /\ cst[c] = "joinsample"
  /\ IF JoinSatisfied(csamp[c])
       THEN /\ NextOp(c) /\ UNCHANGED <<csamp, cw, woken>>
       ELSE /\ BroadcastEffect /\ csamp' = [csamp EXCEPT ![c] = Sample] /\ UNCHANGED <<ci, cst>>
  /\ UNCHANGED <<queue, wmap, idle, kill, nextW, wpc, wdec, wgot, wtask, wsub, accepted, started, done, busy>>
  /\ Log(c, "C_JoinSample")

ClientStep(c) == \/ C_Add(c) \/ C_Set(c) \/ C_SetBroadcast(c)
                 \/ C_SetAfterBroadcast(c) \/ C_SetSample(c) \/ C_SetGrown(c) \/ C_SetIdleWait(c)
                 \/ C_WaitAll(c) \/ C_WaitAllSample(c) \/ C_JoinAll(c) \/ C_JoinSet(c) \/ C_JoinSample(c)

Next == (\E w \in W : WorkerStep(w)) \/ (\E c \in Clients : ClientStep(c))

Spec == Init /\ [][Next]_vars
FairSpec == Spec /\ (\A w \in W : WF_vars(WorkerStep(w))) /\ (\A c \in Clients : WF_vars(ClientStep(c)))

(* ---- property level (C09) ------------------------------------------------ *)
InQueue(t) == \E i \in 1..Len(queue) : queue[i] = t

TypeOK == /\ wmap \subseteq W /\ idle \subseteq W /\ kill \in -1..MaxW
          /\ SeqToSet(cw) \subseteq W /\ woken \subseteq W

AtMostOnce == \A t \in Tasks : started[t] <= 1

NoDrop == \A t \in accepted : started[t] = 1 \/ InQueue(t) \/ (\E w \in W : wtask[w] = t)

NoDupInQueue == \A i, j \in 1..Len(queue) : i # j => queue[i] # queue[j]

\* A permanently quiescent state (no step possible) with a worker alive must not
\* hold an accepted task that was never started: "without any further call being needed".
Stuck == ~ ENABLED Next
NoLostTask == (Stuck /\ wmap # {}) => \A t \in accepted : started[t] = 1

\* WaitAll returns on a satisfying sample: at the sampling moment no task was queued or running
\* (with zero workers WaitAll returns at once; the statement of C09 is about a pool with workers).
WaitAllOK == \A c \in Clients :
   (HasOp(c) /\ cst[c] = "wasample" /\ WaitAllSatisfied(csamp[c]) /\ csamp[c][1] > 0) => csamp[c][4]

\* JoinAll returns on a satisfying sample: every accepted task was done and no worker was left.
JoinAllOK == \A c \in Clients :
   (HasOp(c) /\ cst[c] = "joinsample" /\ JoinSatisfied(csamp[c])) => csamp[c][5]

AllClientsDone == \A c \in Clients : ~ HasOp(c)

\* the worker count converges to n (used with the n of the scenario's last resize)
Converges(n) == <>[](Cardinality(wmap) = n)
EventuallyStarted == \A t \in Tasks : (t \in accepted) ~> (started[t] = 1)
ClientsTerminate == <>AllClientsDone
=============================================================================
