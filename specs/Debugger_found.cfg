SPECIFICATION Spec
CONSTANTS Variant = "found" RecordHist = FALSE MaxCmds = 5
CONSTANT Threads <- MCThreads1
CONSTANT Prog <- MCProg
CONSTANT Lines <- MCLines
INVARIANT TypeOK
INVARIANT NoLostWakeup
CHECK_DEADLOCK FALSE
