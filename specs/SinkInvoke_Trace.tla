-------------------------- MODULE SinkInvoke_Trace --------------------------
(***************************************************************************)
(* Property-level validation of recorded sink invocations (C11).  One      *)
(* record per event that was added with wait semantics while other events  *)
(* were in flight: what the payload dictated (fail, type, detail, data,    *)
(* id) and what was observed (the error report of that event's cascade and *)
(* the values echoed by the invocation's locals).                          *)
(***************************************************************************)
EXTENDS Integers, Sequences, FiniteSets, TLC, Json, IOUtils

Trace == ndJsonDeserialize(IOEnv.VERIF_TRACE)
VARIABLES i, bad
vars == <<i, bad>>
Init == i = 1 /\ bad = <<>>

Ok(e) ==
  /\ e.nerrors = (IF e.fail THEN 1 ELSE 0)                \* no error lost, duplicated or taken from another event
  /\ (e.fail => /\ e.rsink = e.sink /\ e.rtype = e.type /\ e.rdetail = e.detail /\ e.rdata = e.data)
  /\ e.echo = <<e.id, e.id>>                              \* the invocation saw its own event and its own locals
  /\ e.revent = e.name                                    \* the report is attributed to this event
Next == /\ i <= Len(Trace) /\ i' = i + 1
        /\ bad' = IF Trace[i].ev = "reset" \/ Ok(Trace[i]) THEN bad ELSE Append(bad, i)
Spec == Init /\ [][Next]_vars
Report == (i = Len(Trace) + 1) => PrintT(<<"TRACE-RESULT", Len(Trace), ToJson(bad)>>)
=============================================================================
