------------------------------ MODULE Total_Trace ------------------------------
(***************************************************************************)
(* Validation of recorded outcomes of the cases of Total.tla (C06).  Each  *)
(* record: the case, its expected class and the outcome class observed in  *)
(* three settings: plain evaluation, inside try (the error must reach the  *)
(* except clause) and inside a sink on a pool worker (only that invocation *)
(* fails).  Clauses (result lists 10*i + k):                               *)
(*  1 no fault in any setting                                              *)
(*  2 the plain outcome class is the class the reference fixes             *)
(*  3 an error is catchable: plain error <=> the except clause ran         *)
(*  4 inside a sink the same class, and the processor keeps working        *)
(***************************************************************************)
EXTENDS Integers, Sequences, TLC, Json, IOUtils
Trace == ndJsonDeserialize(IOEnv.VERIF_TRACE)
VARIABLES i, bad
vars == <<i, bad>>
Init == i = 1 /\ bad = <<>>
Next ==
  /\ i <= Len(Trace) /\ i' = i + 1
  /\ LET e == Trace[i] IN
     bad' = bad \o (IF e.plain = "fault" \/ e.intry = "fault" \/ e.insink = "fault" THEN <<10 * i + 1>> ELSE <<>>)
                \o (IF e.plain = "fault" \/ e.exp = "any" \/ e.plain = e.exp THEN <<>> ELSE <<10 * i + 2>>)
                \o (IF e.plain = "fault" \/ e.intry = "fault" \/ ((e.plain = "error") = (e.intry = "caught")) THEN <<>> ELSE <<10 * i + 3>>)
                \o (IF e.plain = "fault" \/ e.insink \in {"fault", "skipped"} \/ (e.insink = e.plain /\ e.alive) THEN <<>> ELSE <<10 * i + 4>>)
Spec == Init /\ [][Next]_vars
Report == (i = Len(Trace) + 1) => PrintT(<<"TRACE-RESULT", Len(Trace), ToJson(bad)>>)
=============================================================================
