----------------------------- MODULE EcalSyntax -----------------------------
(***************************************************************************)
(* Reference syntax of ECAL expressions (C03, C08): token sequences, the   *)
(* binding powers AS THE LANGUAGE REFERENCE STATES THEM, a reference Pratt *)
(* parser and a reference printer.                                         *)
(*                                                                         *)
(* Tokens: [k, v, cs]  k in "num" "str" "id" "true" "false" "null" (operand*)
(* tokens), "op" (v = operator text), "lp" "rp" "lb" "rb" "comma".         *)
(* Trees:  [n, v, cs, c]  n = node kind as the real parser names it,       *)
(* v = the text of the node's token, cs = the bytes of a string value,     *)
(* c = children.                                                           *)
(***************************************************************************)
EXTENDS Integers, Sequences, FiniteSets

\* documented precedence: multiplicative > additive > comparison/membership > and > or > assignment
Mul == {"*", "/", "//", "%"}
Add == {"+", "-"}
Cmp == {">=", "<=", "!=", "==", ">", "<", "like", "in", "notin", "hasprefix", "hassuffix"}
BinOps == Mul \cup Add \cup Cmp \cup {"and", "or", ":="}
Level(op) == IF op \in Mul THEN 6 ELSE IF op \in Add THEN 5 ELSE IF op \in Cmp THEN 4
             ELSE IF op = "and" THEN 3 ELSE IF op = "or" THEN 2 ELSE IF op = ":=" THEN 1 ELSE 0
PrefixSignLevel == 7      \* prefix minus / plus bind tightest
NotLevel == 3             \* `not` applies to the following comparison: it takes everything binding tighter than `and`

NodeName(op) ==
  CASE op = "+" -> "plus" [] op = "-" -> "minus" [] op = "*" -> "times" [] op = "/" -> "div"
    [] op = "//" -> "divint" [] op = "%" -> "modint" [] OTHER -> op     \* comparisons, and/or/not, := keep their text

Node(n, v, cs, c) == [n |-> n, v |-> v, cs |-> cs, c |-> c]
IsOperand(t) == t.k \in {"num", "str", "id", "true", "false", "null"}
OperandNode(t) == Node(CASE t.k = "num" -> "number" [] t.k = "str" -> "string" [] t.k = "id" -> "identifier" [] OTHER -> t.k,
                       t.v, t.cs, <<>>)
IsBinOp(t) == t.k = "op" /\ t.v \in BinOps
Bad == Node("<syntax error>", "", <<>>, <<>>)

(* ---- reference Pratt parser: Expr(ts, i, minLevel) = <<tree, next index>> -------------- *)
RECURSIVE Expr(_, _, _), Nud(_, _), Led(_, _, _, _), ListItems(_, _, _)

\* elements of a list literal up to the closing bracket
ListItems(ts, i, acc) ==
  IF i > Len(ts) THEN <<Bad, i>>
  ELSE IF ts[i].k = "rb" THEN <<Node("list", "[", <<>>, acc), i + 1>>
  ELSE LET e == Expr(ts, i, 0) IN
       IF e[1] = Bad \/ e[2] > Len(ts) THEN <<Bad, e[2]>>
       ELSE IF ts[e[2]].k = "comma" THEN ListItems(ts, e[2] + 1, Append(acc, e[1]))
       ELSE IF ts[e[2]].k = "rb" THEN <<Node("list", "[", <<>>, Append(acc, e[1])), e[2] + 1>>
       ELSE <<Bad, e[2]>>

Nud(ts, i) ==
  IF i > Len(ts) THEN <<Bad, i>>
  ELSE LET t == ts[i] IN
    IF IsOperand(t) THEN <<OperandNode(t), i + 1>>
    ELSE IF t.k = "lp" THEN
           LET e == Expr(ts, i + 1, 0) IN
           IF e[1] # Bad /\ e[2] <= Len(ts) /\ ts[e[2]].k = "rp" THEN <<e[1], e[2] + 1>> ELSE <<Bad, e[2]>>
    ELSE IF t.k = "lb" THEN ListItems(ts, i + 1, <<>>)
    ELSE IF t.k = "op" /\ t.v \in {"-", "+"} THEN
           LET e == Expr(ts, i + 1, PrefixSignLevel) IN
           IF e[1] = Bad THEN e ELSE <<Node(NodeName(t.v), t.v, <<>>, <<e[1]>>), e[2]>>
    ELSE IF t.k = "op" /\ t.v = "not" THEN
           LET e == Expr(ts, i + 1, NotLevel) IN
           IF e[1] = Bad THEN e ELSE <<Node("not", "not", <<>>, <<e[1]>>), e[2]>>
    ELSE <<Bad, i>>

\* left denotations while the next operator binds tighter than minLevel (left associative)
Led(ts, left, i, minLevel) ==
  IF i > Len(ts) \/ ~ IsBinOp(ts[i]) \/ Level(ts[i].v) <= minLevel THEN <<left, i>>
  ELSE LET op == ts[i].v
           r == Expr(ts, i + 1, Level(op)) IN
       IF r[1] = Bad THEN r
       ELSE Led(ts, Node(NodeName(op), op, <<>>, <<left, r[1]>>), r[2], minLevel)

Expr(ts, i, minLevel) ==
  LET l == Nud(ts, i) IN IF l[1] = Bad THEN l ELSE Led(ts, l[1], l[2], minLevel)

\* a whole token sequence is one expression
RefParse(ts) == LET e == Expr(ts, 1, 0) IN IF e[1] # Bad /\ e[2] = Len(ts) + 1 THEN e[1] ELSE Bad

(* ---- structural equality with the tree of the real parser: kinds, token texts of operands, nesting ---- *)
RECURSIVE SameTree(_, _)
SameTree(a, b) ==
  /\ a.n = b.n /\ Len(a.c) = Len(b.c)
  /\ (a.n \in {"number", "string", "identifier"} => a.v = b.v)
  /\ \A j \in 1..Len(a.c) : SameTree(a.c[j], b.c[j])

(* ---- reference printer (C08): minimal parentheses --------------------------------------------- *)
\* level of a tree's root as an operand
RootLevel(t) == IF Len(t.c) = 2 /\ t.n \notin {"list"} THEN Level(t.v)
                ELSE IF t.n \in {"minus", "plus"} /\ Len(t.c) = 1 THEN PrefixSignLevel
                ELSE IF t.n = "not" THEN NotLevel ELSE 9
OpTok(v) == [k |-> "op", v |-> v, cs |-> <<>>]
LP == [k |-> "lp", v |-> "(", cs |-> <<>>]
RP == [k |-> "rp", v |-> ")", cs |-> <<>>]
Paren(ts) == <<LP>> \o ts \o <<RP>>
OperandTok(t) == [k |-> CASE t.n = "number" -> "num" [] t.n = "string" -> "str" [] t.n = "identifier" -> "id" [] OTHER -> t.n,
                  v |-> t.v, cs |-> t.cs]

RECURSIVE Render(_), RenderList(_, _)
RenderList(c, j) == IF j > Len(c) THEN <<>>
                    ELSE Render(c[j]) \o (IF j < Len(c) THEN <<[k |-> "comma", v |-> ",", cs |-> <<>>]>> ELSE <<>>) \o RenderList(c, j + 1)
\* parenthesise a child iff it binds weaker than its parent, or equally on the right of a (left associative)
\* binary operator; an operand of a prefix operator is parenthesised iff it binds weaker than the prefix
Render(t) ==
  IF t.n = "list" THEN <<[k |-> "lb", v |-> "[", cs |-> <<>>]>> \o RenderList(t.c, 1) \o <<[k |-> "rb", v |-> "]", cs |-> <<>>]>>
  ELSE IF Len(t.c) = 0 THEN <<OperandTok(t)>>
  ELSE IF Len(t.c) = 1 THEN
         LET lvl == IF t.n = "not" THEN NotLevel ELSE PrefixSignLevel
             sub == Render(t.c[1]) IN
         <<OpTok(t.v)>> \o (IF RootLevel(t.c[1]) < lvl \/ (Len(t.c[1].c) = 2 /\ t.c[1].n # "list" /\ RootLevel(t.c[1]) = lvl)
                            THEN Paren(sub) ELSE sub)
  ELSE LET lv == Level(t.v)
           l == Render(t.c[1])  r == Render(t.c[2]) IN
       (IF RootLevel(t.c[1]) < lv THEN Paren(l) ELSE l) \o <<OpTok(t.v)>> \o
       (IF RootLevel(t.c[2]) <= lv THEN Paren(r) ELSE r)
=============================================================================
