--------------------------- MODULE ParseShared_Trace ---------------------------
(***************************************************************************)
(* Property-level validation of recorded parses (C13): a record says how   *)
(* often a text was parsed under a mode (followed counterexample, probe    *)
(* after it, free concurrent run) and how often the result (tree or error) *)
(* differed from the sequential result of the same text.  Parsing is a     *)
(* pure function of its input: no difference is allowed.                   *)
(***************************************************************************)
EXTENDS Integers, Sequences, TLC, Json, IOUtils
Trace == ndJsonDeserialize(IOEnv.VERIF_TRACE)
VARIABLES i, bad
vars == <<i, bad>>
Init == i = 1 /\ bad = <<>>
Ok(e) == e.runs >= 1 /\ e.mismatch = 0
Next == /\ i <= Len(Trace) /\ i' = i + 1
        /\ bad' = IF Ok(Trace[i]) THEN bad ELSE Append(bad, i)
Spec == Init /\ [][Next]_vars
Report == (i = Len(Trace) + 1) => PrintT(<<"TRACE-RESULT", Len(Trace), ToJson(bad)>>)
=============================================================================
