------------------------------ MODULE EcalExpr ------------------------------
(***************************************************************************)
(* Reference semantics of ECAL expressions (C03; totality clauses of C06). *)
(*                                                                         *)
(* Values (tagged, so that values of different kinds are never compared):  *)
(*   [t |-> "num", p, q]   the rational p/q, q > 0, normalised             *)
(*   [t |-> "str", s]      s = sequence of bytes                           *)
(*   [t |-> "bool", b]   [t |-> "null"]   [t |-> "list", e]                *)
(*   [t |-> "any"]         the reference leaves the result open (IEEE      *)
(*                         infinities / NaN, comparisons across kinds ...) *)
(*   [t |-> "err", ty, tok]  runtime error: ty in "nan" (operand is not a  *)
(*                         number) "nab" (not a boolean) "nal" (not a      *)
(*                         list) "zero" (modulo by zero); tok = the token  *)
(*                         text of the offending operand                   *)
(* Eval(tree, env): env maps identifier names to values.                   *)
(***************************************************************************)
EXTENDS EcalSyntax

Num(p, q) == [t |-> "num", p |-> p, q |-> q]
Str(s) == [t |-> "str", s |-> s]
Bool(b) == [t |-> "bool", b |-> b]
Null == [t |-> "null"]
List(e) == [t |-> "list", e |-> e]
Any == [t |-> "any"]
Err(ty, tok) == [t |-> "err", ty |-> ty, tok |-> tok]

Abs(x) == IF x < 0 THEN -x ELSE x
RECURSIVE GCD(_, _)
GCD(a, b) == IF b = 0 THEN a ELSE GCD(b, a % b)
Norm(p, q) == LET s == IF q < 0 THEN -1 ELSE 1
                  g == GCD(Abs(p), Abs(q)) IN
              IF g = 0 THEN Num(0, 1) ELSE Num((s * p) \div g, (s * q) \div g)
\* truncation towards zero / floor of a rational
Trunc(v) == IF v.p >= 0 THEN v.p \div v.q ELSE -((-v.p) \div v.q)
Floor(v) == v.p \div v.q          \* TLA+ \div rounds towards minus infinity for q > 0
Rem(a, b) == LET r == Abs(a) % Abs(b) IN IF a < 0 THEN -r ELSE r      \* Go's %: sign of the dividend

\* number literals of the case universe (text -> value)
NumLit(v) == CASE v = "0" -> Num(0, 1) [] v = "1" -> Num(1, 1) [] v = "2" -> Num(2, 1) [] v = "3" -> Num(3, 1)
               [] v = "5" -> Num(5, 1) [] v = "7" -> Num(7, 1) [] v = "0.5" -> Num(1, 2) [] v = "1.5" -> Num(3, 2)
               [] v = "2.5" -> Num(5, 2) [] OTHER -> Any

Arith(op, a, b) ==
  CASE op = "+" -> Norm(a.p * b.q + b.p * a.q, a.q * b.q)
    [] op = "-" -> Norm(a.p * b.q - b.p * a.q, a.q * b.q)
    [] op = "*" -> Norm(a.p * b.p, a.q * b.q)
    [] op = "/" -> IF b.p = 0 THEN Any ELSE Norm(a.p * b.q, a.q * b.p)          \* +-Inf / NaN: IEEE, left open
    [] op = "//" -> IF b.p = 0 THEN Any ELSE Num(Floor(Norm(a.p * b.q, a.q * b.p)), 1)
    [] op = "%" -> IF Trunc(b) = 0 THEN Err("zero", "") ELSE Num(Rem(Trunc(a), Trunc(b)), 1)

NumLess(a, b) == a.p * b.q < b.p * a.q
RECURSIVE SeqLess(_, _)
SeqLess(a, b) == IF b = <<>> THEN FALSE ELSE IF a = <<>> THEN TRUE
                 ELSE IF a[1] < b[1] THEN TRUE ELSE IF a[1] > b[1] THEN FALSE ELSE SeqLess(Tail(a), Tail(b))
Compare(op, lt, eq) == CASE op = "<" -> lt [] op = "<=" -> lt \/ eq [] op = ">" -> ~ lt /\ ~ eq [] op = ">=" -> ~ lt

IsPrefixSeq(p, s) == Len(p) <= Len(s) /\ SubSeq(s, 1, Len(p)) = p
IsSuffixSeq(p, s) == Len(p) <= Len(s) /\ SubSeq(s, Len(s) - Len(p) + 1, Len(s)) = p
\* like: patterns of the structural subset: optional ^ (94) first, optional $ (36) last, body of literal bytes and . (46)
ReBody(p) == LET a == IF p # <<>> /\ p[1] = 94 THEN Tail(p) ELSE p IN
             IF a # <<>> /\ a[Len(a)] = 36 THEN SubSeq(a, 1, Len(a) - 1) ELSE a
LikeMatch(s, p) ==
  LET as == p # <<>> /\ p[1] = 94
      ae == p # <<>> /\ p[Len(p)] = 36 /\ ~ (Len(p) = 1 /\ as)
      body == ReBody(p) IN
  \E pos \in 1..(Len(s) + 1) :
     /\ (as => pos = 1) /\ pos + Len(body) - 1 <= Len(s) /\ (ae => pos + Len(body) - 1 = Len(s))
     /\ \A j \in 1..Len(body) : body[j] = 46 \/ body[j] = s[pos + j - 1]

Scalar(v) == v.t \in {"num", "str", "bool", "null"}
\* equality of the host language on scalars: equal kind and equal value
SameScalar(a, b) == a.t = b.t /\ a = b

IsErr(v) == v.t = "err"
RootTok(t) == t.v

RECURSIVE Eval(_, _), EvalList(_, _, _)
EvalList(c, env, j) == IF j > Len(c) THEN <<>> ELSE <<Eval(c[j], env)>> \o EvalList(c, env, j + 1)

Eval(t, env) ==
  CASE t.n = "number" -> NumLit(t.v)
    [] t.n = "string" -> Str(t.cs)
    [] t.n = "true" -> Bool(TRUE)
    [] t.n = "false" -> Bool(FALSE)
    [] t.n = "null" -> Null
    [] t.n = "identifier" -> IF t.v \in DOMAIN env THEN env[t.v] ELSE Null      \* undefined variables read as NULL
    [] t.n = "list" -> LET es == EvalList(t.c, env, 1) IN
                       IF \E j \in 1..Len(es) : IsErr(es[j]) THEN es[CHOOSE j \in 1..Len(es) : IsErr(es[j]) /\ \A k \in 1..(j - 1) : ~ IsErr(es[k])]
                       ELSE IF \E j \in 1..Len(es) : es[j].t = "any" THEN Any ELSE List(es)
    [] Len(t.c) = 1 ->
         LET x == Eval(t.c[1], env) IN
         IF IsErr(x) \/ x.t = "any" THEN x
         ELSE IF t.n = "not" THEN (IF x.t = "bool" THEN Bool(~ x.b) ELSE Err("nab", RootTok(t.c[1])))
         ELSE IF x.t # "num" THEN Err("nan", RootTok(t.c[1]))
         ELSE IF t.n = "minus" THEN Norm(-x.p, x.q) ELSE x
    [] OTHER ->
         LET a == Eval(t.c[1], env)
             b == Eval(t.c[2], env)
             op == t.v IN
         IF IsErr(a) THEN a ELSE IF IsErr(b) THEN b        \* both operands are evaluated, left first
         ELSE IF a.t = "any" \/ b.t = "any" THEN Any        \* an open operand may be anything, also an error
         ELSE IF op \in Mul \cup Add THEN
                IF a.t # "num" THEN Err("nan", RootTok(t.c[1]))
                ELSE IF b.t # "num" THEN Err("nan", RootTok(t.c[2]))
                ELSE Arith(op, a, b)
         ELSE IF op \in {"and", "or"} THEN
                IF a.t # "bool" THEN Err("nab", RootTok(t.c[1]))
                ELSE IF b.t # "bool" THEN Err("nab", RootTok(t.c[2]))
                ELSE Bool(IF op = "and" THEN a.b /\ b.b ELSE a.b \/ b.b)
         ELSE IF op \in {"<", "<=", ">", ">="} THEN
                IF a.t = "num" /\ b.t = "num" THEN Bool(Compare(op, NumLess(a, b), a = b))
                ELSE IF a.t = "str" /\ b.t = "str" THEN Bool(Compare(op, SeqLess(a.s, b.s), a.s = b.s))
                ELSE Any                                   \* ordering across kinds is not defined by the reference
         ELSE IF op \in {"==", "!="} THEN
                IF Scalar(a) /\ Scalar(b) /\ a.t = b.t THEN Bool((a = b) = (op = "=="))
                ELSE Any
         ELSE IF op \in {"hasprefix", "hassuffix", "like"} THEN
                IF a.t = "str" /\ b.t = "str"
                  THEN Bool(CASE op = "hasprefix" -> IsPrefixSeq(b.s, a.s)
                              [] op = "hassuffix" -> IsSuffixSeq(b.s, a.s)
                              [] OTHER -> LikeMatch(a.s, b.s))
                  ELSE Any
         ELSE IF op \in {"in", "notin"} THEN
                IF b.t # "list" THEN Err("nal", RootTok(t.c[2]))
                ELSE IF Scalar(a) /\ \A j \in 1..Len(b.e) : Scalar(b.e[j])
                       THEN Bool((\E j \in 1..Len(b.e) : SameScalar(a, b.e[j])) = (op = "in"))
                       ELSE Any
         ELSE IF op = ":=" THEN Null
         ELSE Any

\* every runtime error some evaluation order of the tree could raise (which one wins is not specified)
RECURSIVE PossibleErrors(_, _)
PossibleErrors(t, env) ==
  LET own == Eval(t, env)
      subs == UNION {PossibleErrors(t.c[j], env) : j \in 1..Len(t.c)} IN
  (IF IsErr(own) THEN {own} ELSE {}) \cup subs
      \cup (IF Len(t.c) = 2 /\ t.v \in Mul \cup Add \cup {"and", "or"}
              THEN {Err(IF t.v \in {"and", "or"} THEN "nab" ELSE "nan", RootTok(t.c[j])) :
                      j \in {k \in 1..2 : LET x == Eval(t.c[k], env) IN
                                          ~ IsErr(x) /\ x.t # "any" /\ x.t # (IF t.v \in {"and", "or"} THEN "bool" ELSE "num")}}
              ELSE {})
=============================================================================
