SPECIFICATION Spec
CONSTANTS
 Parsers <- MC_Parsers
 Script <- MC_Script
 Variant = "global"
INVARIANTS ExportBad SameAsAlone TableRestored
CHECK_DEADLOCK FALSE
