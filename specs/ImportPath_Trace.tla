-------------------------- MODULE ImportPath_Trace --------------------------
(***************************************************************************)
(* Direction B for C17: records (root spelling, leading separator, path    *)
(* segments, what the real locator returned) are judged against the        *)
(* reference walk of ImportPath.tla.  Used for the random long paths that  *)
(* the exhaustive case universe does not contain.                          *)
(*   clause 3: the locator returned the content of a file OUTSIDE the root *)
(*             (the property)                                              *)
(*   clause 1: the walk never leaves the root and ends at a file, and the  *)
(*             locator refused it (not demanded by the property: drift)    *)
(*   clause 2: the locator returned a file inside the root other than the  *)
(*             one the path denotes (not demanded by the property: drift)  *)
(***************************************************************************)
EXTENDS ImportPathRef, TLC, Json, IOUtils, SequencesExt

Trace == ndJsonDeserialize(IOEnv.VERIF_TRACE)

\* record: [root, path, got = "error" | "content", loc (location named by the returned content)]
InRoot(r, loc) == Len(loc) >= Len(RootLoc(r)) /\ SubSeq(loc, 1, Len(RootLoc(r))) = RootLoc(r)
Bad(i) ==
  LET rec == Trace[i]
      e == Expect(rec.root, rec.path)
  IN IF rec.got = "error" THEN (IF e.cls = "inside" THEN {10 * i + 1} ELSE {})
     ELSE IF ~InRoot(rec.root, rec.loc) THEN {10 * i + 3}
     ELSE IF e.cls # "error" /\ rec.loc = e.loc THEN {}
     ELSE {10 * i + 2}

VARIABLES i, bad
tvars == <<i, bad>>
TInit == i = 1 /\ bad = {}
TNext == i <= Len(Trace) /\ i' = i + 1 /\ bad' = bad \cup Bad(i)
TSpec == TInit /\ [][TNext]_tvars
Report == (i = Len(Trace) + 1) => PrintT(<<"TRACE-RESULT", Len(Trace), ToJson(SetToSeq(bad))>>)
=============================================================================
