\* assumptions only
