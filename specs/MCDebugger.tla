----------------------------- MODULE MCDebugger -----------------------------
(* Exhaustive instance: two threads, a program with a call, breakpoints on three lines. *)
EXTENDS Debugger
V(l) == [k |-> "visit", line |-> l]
\* x := 1 ; y := f(x) with f on lines 5..6 ; z := 2        (two nodes per statement line)
P1 == <<V(1), V(1), V(2), [k |-> "in", line |-> 2], V(5), V(5), V(6), [k |-> "out", line |-> 2], V(2), V(3)>>
P2 == <<V(1), V(3), V(3)>>
MCProg == <<P1, P2>>
MCThreads == {1, 2}
MCThreads1 == {1}
MCLines == {2, 5, 6}
=============================================================================
