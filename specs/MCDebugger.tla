----------------------------- MODULE MCDebugger -----------------------------
(* Exhaustive instance: two threads, a program with a call, breakpoints on three lines. *)
EXTENDS Debugger
V(l) == [k |-> "visit", line |-> l]
\* x := 1 ; y := f(x) with f on lines 5..6 ; z := 2        (two nodes per statement line)
P1 == <<V(1), V(1), V(2), [k |-> "in", line |-> 2], V(5), V(5), V(6), [k |-> "out", line |-> 2], V(2), V(3)>>
P2 == <<V(1), V(3), V(3)>>
\* x := 1 ; try { y := f(x) } except { z := 2 } with f on line 5 calling raise: the error leaves raise, then f
P3 == <<V(1), V(2), [k |-> "in", line |-> 2], V(5), [k |-> "in", line |-> 5], [k |-> "outerr", line |-> 5], [k |-> "outerr", line |-> 2], V(3), V(4)>>
MCProg == <<P1, P2>>
MCProgErr == <<P3, P2>>
MCThreads == {1, 2}
MCThreads1 == {1}
MCLines == {2, 5, 6}
=============================================================================
