SPECIFICATION Spec
CONSTANTS Variant = "code" RecordHist = FALSE MaxCmds = 5
CONSTANT Threads <- MCThreads1
CONSTANT Prog <- MCProg
CONSTANT Lines <- MCLines
INVARIANT TypeOK
INVARIANT NoLostWakeup
INVARIANT ReportedIsSuspended
INVARIANT BreakpointsSuspend
PROPERTY StopReleasesAll
CHECK_DEADLOCK FALSE
