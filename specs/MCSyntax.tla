---- MODULE MCSyntax ----
EXTENDS EcalSyntax, TLC
\* design theorems of the reference itself, over all trees of depth <= 2 built from every operator
\* under every other on either side, and prefix operators above and below
Leafs == {Node("identifier", "a", <<>>, <<>>), Node("number", "1", <<>>, <<>>)}
Ops == BinOps \ {":="}
Bin(op, l, r) == Node(NodeName(op), op, <<>>, <<l, r>>)
Pre(op, x) == Node(NodeName(op), op, <<>>, <<x>>)
D1 == {Bin(op, l, r) : op \in Ops, l \in Leafs, r \in Leafs} \cup {Pre(p, l) : p \in {"-", "+", "not"}, l \in Leafs}
A == Node("identifier", "a", <<>>, <<>>)
D2 == {Bin(op, x, A) : op \in Ops, x \in D1} \cup {Bin(op, A, x) : op \in Ops, x \in D1}
      \cup {Pre(p, x) : p \in {"-", "+", "not"}, x \in D1}
Trees == Leafs \cup D1 \cup D2
RoundTrip == \A t \in Trees : RefParse(Render(t)) = t
ASSUME PrintT(<<"trees", Cardinality(Trees)>>)
ASSUME RoundTrip
====
