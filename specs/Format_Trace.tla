------------------------------ MODULE Format_Trace ------------------------------
(***************************************************************************)
(* Validation of recorded formatter runs (C08).  A record: a source text   *)
(* that parses (tree t0), the tree t1 of the re-parsed pretty printed      *)
(* text, and whether printing t1 again gave the same text.  Trees are      *)
(* [n, v, esc, c]: kind, token text, the string kind (TRUE = quoted /      *)
(* interpolating, FALSE = raw) and children; positions, comments and blank *)
(* lines are not part of them.  Clauses (result lists 10*i + k):           *)
(*  1 the formatted text parses again                                      *)
(*  2 it parses to the same tree: kinds, values, nesting, string kind      *)
(*  3 formatting is idempotent                                             *)
(*  4 the formatter did not panic / the format tool left a parseable file  *)
(***************************************************************************)
EXTENDS Integers, Sequences, TLC, Json, IOUtils

Trace == ndJsonDeserialize(IOEnv.VERIF_TRACE)
VARIABLES i, bad
vars == <<i, bad>>
Init == i = 1 /\ bad = <<>>

ValueKinds == {"number", "string", "identifier"}
RECURSIVE Same(_, _)
Same(a, b) ==
  /\ a.n = b.n /\ Len(a.c) = Len(b.c)
  /\ (a.n \in ValueKinds => a.v = b.v)
  /\ (a.n = "string" => a.esc = b.esc)
  /\ \A j \in 1..Len(a.c) : Same(a.c[j], b.c[j])

Next ==
  /\ i <= Len(Trace) /\ i' = i + 1
  /\ LET e == Trace[i] IN
     bad' = bad \o (IF e.fault # "" THEN <<10 * i + 4>>
                    ELSE IF ~ e.reparse THEN <<10 * i + 1>>
                    ELSE (IF Same(e.t0, e.t1) THEN <<>> ELSE <<10 * i + 2>>)
                         \o (IF e.idem THEN <<>> ELSE <<10 * i + 3>>))
Spec == Init /\ [][Next]_vars
Report == (i = Len(Trace) + 1) => PrintT(<<"TRACE-RESULT", Len(Trace), ToJson(bad)>>)
=============================================================================
