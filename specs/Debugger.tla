------------------------------ MODULE Debugger ------------------------------
(***************************************************************************)
(* interpreter/debug.go (C15): threads of a debugged program, the          *)
(* interrogation state the debugger keeps per thread, and a client which   *)
(* sets breakpoints and continues suspended threads.                       *)
(*                                                                         *)
(* A thread runs a program given as the sequence of the debugger visits    *)
(* its evaluation makes (recorded from the real interpreter by the         *)
(* debug.visit hook, or written by hand for the exhaustive configs):       *)
(*   [k |-> "visit", line]   VisitState of a node on that line             *)
(*   [k |-> "in",    line]   VisitStepInState: a function is entered       *)
(*   [k |-> "out",   line]   VisitStepOutState: it returned (no error)     *)
(*   [k |-> "outerr", line]  VisitStepOutState: it returned an error       *)
(* One action per step the code takes between two hooks:                   *)
(*   Visit / StepIn / StepOut   the decision tables of the three visit     *)
(*           functions; a thread which has to suspend goes to the gate     *)
(*           (hook debug.suspend)                                          *)
(*   Park    from the gate into cond.Wait                                  *)
(*   Continue(t, c), StopThreads, SetBreak, RmBreak    the client          *)
(* Variant "found": the thread marks itself suspended (running = FALSE)    *)
(*   before the gate and then waits unconditionally - a Continue which     *)
(*   arrives at the gate sets running and wakes nobody; breakpoints are    *)
(*   not looked at while a call is stepped over / out of.                  *)
(* Variant "code": the flag is written under the lock of the condition     *)
(*   and the thread waits while it is not set.                             *)
(***************************************************************************)
EXTENDS Integers, Sequences, FiniteSets, TLC, Json

CONSTANTS Threads, Prog,        \* Prog[t]: the visits of thread t
          Lines,                \* lines on which the client may set breakpoints
          MaxCmds,              \* bound on client commands
          Variant,
          RecordHist            \* keep the behaviour in hist (simulation / export for the follow mode only)

VARIABLES ip,       \* ip[t]: next visit
          pc,       \* "run" | "gate" | "waiting" | "resumed" | "done" | "killed"
          is,       \* interrogation state: [on, cmd, running, line, sos, fresh]
          depth,    \* call stack length
          bp,       \* active breakpoints
          ncmd,     \* client commands issued
          susp,     \* history: <<t, line>> of suspensions (gate reached)
          owed,     \* owed[t]: a continue command was addressed to t while it was suspended (at the gate or waiting) and t has not gone on yet
          missed,   \* history: <<t, line>> where a thread arrived from another line at an active breakpoint and did not suspend
          hist      \* the actions taken with the projection of the state they lead to (only if RecordHist)

vars == <<ip, pc, is, depth, bp, ncmd, susp, owed, missed, hist>>

\* the state without the history variables: with it as VIEW a behaviour can be recorded without blowing up the search
view == <<ip, pc, is, depth, bp, ncmd, owed, missed>>

None == [on |-> FALSE, cmd |-> "Stop", running |-> TRUE, line |-> 0, sos |-> 0, fresh |-> FALSE, err |-> FALSE]
ContTypes == {"Resume", "StepIn", "StepOver", "StepOut"}

Init ==
  /\ ip = [t \in Threads |-> 1] /\ pc = [t \in Threads |-> "run"] /\ is = [t \in Threads |-> None]
  /\ depth = [t \in Threads |-> 0] /\ bp \in SUBSET Lines /\ ncmd = 0 /\ susp = <<>> /\ missed = {} /\ owed = [t \in Threads |-> FALSE]
  /\ hist = IF RecordHist THEN <<[a |-> "Init", t |-> 0, arg |-> "", bp |-> bp]>> ELSE <<>>

Cur(t) == Prog[t][ip[t]]
PrevLine(t) == IF ip[t] = 1 THEN 0 ELSE Prog[t][ip[t] - 1].line
Advance(t) == /\ ip' = [ip EXCEPT ![t] = @ + 1]
              /\ pc' = [pc EXCEPT ![t] = IF ip[t] + 1 > Len(Prog[t]) THEN "done" ELSE "run"]

\* a new interrogation state is registered (breakpoint hit): reported as suspended from now on
Fresh(l) == [on |-> TRUE, cmd |-> "Stop", running |-> FALSE, line |-> l, sos |-> 0, fresh |-> TRUE, err |-> FALSE]
\* the thread goes to the gate (hook debug.suspend); in the found variant a stepping thread has marked itself before
ToGate(t, l, st) ==
  /\ pc' = [pc EXCEPT ![t] = "gate"]
  /\ is' = [is EXCEPT ![t] = IF Variant = "found" THEN [st EXCEPT !.running = FALSE] ELSE st]
  /\ susp' = Append(susp, <<t, l>>)
  /\ UNCHANGED <<ip, depth>>

\* the decision table of VisitState for a node on line l
VisitDecision(t, l) ==
  LET s == is[t] IN
  IF ~s.on THEN
       IF l \in bp THEN ToGate(t, l, Fresh(l)) /\ UNCHANGED missed
       ELSE Advance(t) /\ UNCHANGED <<is, depth, susp, missed>>
  ELSE IF s.cmd \in {"Resume", "Kill"} THEN
       IF s.line # l THEN
            IF s.cmd = "Kill" THEN pc' = [pc EXCEPT ![t] = "killed"] /\ is' = [is EXCEPT ![t] = None] /\ UNCHANGED <<ip, depth, susp, missed>>
            ELSE \* the state is dropped and the node visited again without it
                 IF l \in bp THEN ToGate(t, l, Fresh(l)) /\ UNCHANGED missed
                 ELSE Advance(t) /\ is' = [is EXCEPT ![t] = None] /\ UNCHANGED <<depth, susp, missed>>
       ELSE Advance(t) /\ UNCHANGED <<is, depth, susp, missed>>
  ELSE IF s.cmd \in {"Stop", "StepIn", "StepOver"} THEN
       IF s.line # l \/ s.cmd = "Stop" THEN ToGate(t, l, [s EXCEPT !.line = l, !.fresh = FALSE]) /\ UNCHANGED missed
       ELSE Advance(t) /\ UNCHANGED <<is, depth, susp, missed>>
  ELSE \* StepOut (also the inside of a call which is stepped over): only a breakpoint on another line than the one the
       \* thread was continued from stops it; the pinned code did not look at breakpoints here at all
       IF Variant # "found" /\ l \in bp /\ s.line # l
       THEN ToGate(t, l, [s EXCEPT !.cmd = "Stop", !.line = l, !.fresh = FALSE]) /\ UNCHANGED missed
       ELSE /\ Advance(t) /\ UNCHANGED <<is, depth, susp>>
            /\ missed' = IF l \in bp /\ PrevLine(t) # l THEN missed \cup {<<t, l>>} ELSE missed

Visit(t) == pc[t] = "run" /\ Cur(t).k = "visit" /\ VisitDecision(t, Cur(t).line) /\ UNCHANGED <<bp, ncmd>>

\* VisitStepInState: a pending Stop suspends before the function is entered; the entry is completed with the
\* command of the continue
StepIn(t) ==
  /\ pc[t] = "run" /\ Cur(t).k = "in" /\ UNCHANGED <<bp, ncmd>>
  /\ LET s == is[t] IN
     IF s.on /\ s.cmd = "Stop"
     THEN ToGate(t, Cur(t).line, [s EXCEPT !.line = Cur(t).line, !.fresh = FALSE]) /\ UNCHANGED missed
     ELSE /\ is' = [is EXCEPT ![t] = IF ~s.on THEN s
                                      ELSE IF s.cmd = "StepIn" THEN [s EXCEPT !.cmd = "Stop"]
                                      ELSE IF s.cmd = "StepOver" THEN [s EXCEPT !.cmd = "StepOut", !.sos = depth[t]]
                                      ELSE s]
          /\ depth' = [depth EXCEPT ![t] = @ + 1]
          /\ Advance(t) /\ UNCHANGED <<susp, missed>>

StepOut(t) ==
  /\ pc[t] = "run" /\ Cur(t).k = "out" /\ UNCHANGED <<bp, ncmd, susp, missed>>
  /\ depth' = [depth EXCEPT ![t] = @ - 1]
  /\ is' = [is EXCEPT ![t] = IF ~is[t].on THEN is[t]
                               ELSE IF is[t].cmd \in {"StepOver", "StepOut"} /\ depth[t] - 1 = is[t].sos
                                    THEN [is[t] EXCEPT !.cmd = "Stop", !.err = FALSE]
                                    ELSE [is[t] EXCEPT !.err = FALSE]]
  /\ Advance(t)

\* VisitStepOutState with an error (break on error is on): the first frame the error leaves suspends the thread -
\* registered as suspended before the gate
StepOutErr(t) ==
  /\ pc[t] = "run" /\ Cur(t).k = "outerr" /\ UNCHANGED <<bp, ncmd, missed>>
  /\ depth' = [depth EXCEPT ![t] = @ - 1]
  /\ LET s == is[t]
         l == Cur(t).line IN
     IF ~s.on
     THEN /\ pc' = [pc EXCEPT ![t] = "gate"] /\ is' = [is EXCEPT ![t] = [Fresh(l) EXCEPT !.err = TRUE]]
          /\ susp' = Append(susp, <<t, l>>) /\ UNCHANGED ip
     ELSE IF ~s.err
     THEN /\ pc' = [pc EXCEPT ![t] = "gate"] /\ is' = [is EXCEPT ![t] = [s EXCEPT !.line = l, !.running = FALSE, !.fresh = TRUE, !.err = TRUE]]
          /\ susp' = Append(susp, <<t, l>>) /\ UNCHANGED ip
     ELSE \* the error passes a further frame: the pinned code (and variant "bogus") marks the thread as not running
          \* although it does not wait - a continue command addressed to it then is consumed by the next real suspension
          /\ is' = [is EXCEPT ![t] = IF Variant \in {"found", "bogus"} THEN [s EXCEPT !.line = l, !.running = FALSE] ELSE s]
          /\ Advance(t) /\ UNCHANGED susp

\* from the gate into the wait
Park(t) ==
  /\ pc[t] = "gate" /\ UNCHANGED <<ip, depth, bp, ncmd, susp, missed>>
  /\ IF Variant = "found"
     THEN pc' = [pc EXCEPT ![t] = "waiting"] /\ is' = [is EXCEPT ![t].fresh = FALSE]          \* waits whatever the flag says
     ELSE IF is[t].fresh
          THEN \* registered as suspended at the breakpoint: waits unless it has been continued already
               \* (variant "reclear": a helper clears the flag once more under the lock - a continue which came in
               \* between is consumed and the thread waits all the same)
               IF Variant = "reclear"
               THEN /\ pc' = [pc EXCEPT ![t] = "waiting"]
                    /\ is' = [is EXCEPT ![t] = [is[t] EXCEPT !.fresh = FALSE, !.running = FALSE]]
               ELSE /\ pc' = [pc EXCEPT ![t] = IF is[t].running THEN "resumed" ELSE "waiting"]
                    /\ is' = [is EXCEPT ![t].fresh = FALSE]
          ELSE \* stepping: the flag is cleared under the lock of the condition, then the thread waits
               /\ pc' = [pc EXCEPT ![t] = "waiting"]
               /\ is' = [is EXCEPT ![t].running = FALSE]

\* after the wait: a suspended visit is complete, a suspended function entry is taken up again with the new command
Resumed(t) ==
  /\ pc[t] = "resumed" /\ UNCHANGED <<is, depth, bp, ncmd, susp, missed>>
  /\ IF Cur(t).k \in {"visit", "outerr"} THEN Advance(t) ELSE pc' = [pc EXCEPT ![t] = "run"] /\ UNCHANGED ip

Continue(t, c) ==
  /\ ncmd < MaxCmds /\ ncmd' = ncmd + 1
  /\ is[t].on /\ ~is[t].running
  /\ is' = [is EXCEPT ![t] = [is[t] EXCEPT !.cmd = IF c = "StepOut" /\ depth[t] = 0 THEN "Resume" ELSE c, !.running = TRUE,
                                            !.sos = IF c = "StepOut" /\ depth[t] > 0 THEN depth[t] - 1 ELSE is[t].sos]]
  /\ pc' = [pc EXCEPT ![t] = IF @ = "waiting" THEN "resumed" ELSE @]                  \* Broadcast: only a thread which waits is woken
  /\ UNCHANGED <<ip, depth, bp, susp, missed>>

StopThreads ==
  /\ ncmd < MaxCmds /\ ncmd' = ncmd + 1
  /\ is' = [t \in Threads |-> IF is[t].on /\ ~is[t].running THEN [is[t] EXCEPT !.cmd = "Kill", !.running = TRUE] ELSE is[t]]
  /\ pc' = [t \in Threads |-> IF is[t].on /\ ~is[t].running /\ pc[t] = "waiting" THEN "resumed" ELSE pc[t]]
  /\ UNCHANGED <<ip, depth, bp, susp, missed>>

SetBreak(l) == ncmd < MaxCmds /\ ncmd' = ncmd + 1 /\ l \notin bp /\ bp' = bp \cup {l} /\ UNCHANGED <<ip, pc, is, depth, susp, missed>>
RmBreak(l) == ncmd < MaxCmds /\ ncmd' = ncmd + 1 /\ l \in bp /\ bp' = bp \ {l} /\ UNCHANGED <<ip, pc, is, depth, susp, missed>>
\* disabling keeps the entry but switches it off; it may be repeated (also for a line which is off already or unknown)
DisableBreak(l) == ncmd < MaxCmds /\ ncmd' = ncmd + 1 /\ bp' = bp \ {l} /\ UNCHANGED <<ip, pc, is, depth, susp, missed>>

\* an action together with its entry in the history: what the harness has to do and what it must then observe
Act(name, t, arg, A) ==
  /\ A
  /\ owed' = [x \in Threads |-> IF name = "Continue" /\ x = t /\ pc[t] \in {"gate", "waiting"} THEN TRUE
                                  ELSE IF pc'[x] \in {"run", "resumed", "done", "killed"} THEN FALSE
                                  ELSE owed[x]]
  /\ hist' = IF RecordHist
             THEN Append(hist, [a |-> name, t |-> t, arg |-> arg,
                                pc |-> [x \in Threads |-> pc'[x]], ip |-> [x \in Threads |-> ip'[x]],
                                on |-> [x \in Threads |-> is'[x].on], running |-> [x \in Threads |-> is'[x].running],
                                depth |-> [x \in Threads |-> depth'[x]]])
             ELSE hist

ThreadStep(t) == \/ Act("Visit", t, "", Visit(t)) \/ Act("StepIn", t, "", StepIn(t)) \/ Act("StepOut", t, "", StepOut(t))
                 \/ Act("StepOutErr", t, "", StepOutErr(t))
                 \/ Act("Park", t, "", Park(t)) \/ Act("Resumed", t, "", Resumed(t))
Next ==
  \/ \E t \in Threads : ThreadStep(t)
  \/ \E t \in Threads, c \in ContTypes : Act("Continue", t, c, Continue(t, c))
  \/ Act("StopThreads", 0, "", StopThreads)
  \/ \E l \in Lines : Act("SetBreak", 0, ToString(l), SetBreak(l)) \/ Act("RmBreak", 0, ToString(l), RmBreak(l))
                        \/ Act("DisableBreak", 0, ToString(l), DisableBreak(l))

Spec == Init /\ [][Next]_vars

\* ---- properties -------------------------------------------------------------------------------------------
TypeOK == \A t \in Threads : pc[t] \in {"run", "gate", "waiting", "resumed", "done", "killed"} /\ depth[t] >= 0
\* no wake-up is lost: a thread never waits with its flag saying that it runs (no continue would ever reach it)
NoLostWakeup == \A t \in Threads : ~(pc[t] = "waiting" /\ is[t].running)
\* a thread reported as suspended (registered, flag cleared) is at the gate or waits: the next continue finds it
ReportedIsSuspended == \A t \in Threads : (is[t].on /\ ~is[t].running) => pc[t] \in {"gate", "waiting"}
\* stopping all threads leaves nobody suspended
\* arriving from another line at an active breakpoint always suspends
BreakpointsSuspend == missed = {}
\* a thread reported as suspended is released by the next continue command addressed to it
ContinueReleases == \A t \in Threads : owed[t] => pc[t] # "waiting"
\* stopping all threads releases every suspended one: directly after the command no thread waits
StopReleasesAll == [][(\E t \in Threads : is'[t].cmd = "Kill" /\ is[t].cmd # "Kill") => (\A t \in Threads : pc'[t] # "waiting")]_vars
\* behaviour export for the follow mode: the history is printed when nothing can happen any more
Export == (~ENABLED Next) => PrintT(<<"BEHAVIOUR", ToJson(hist)>>)
\* the same for the behaviour which loses a wake-up (found variant): replayed on the real code
ExportLost == NoLostWakeup \/ PrintT(<<"BEHAVIOUR", ToJson(hist)>>)
ExportOwed == ContinueReleases \/ PrintT(<<"BEHAVIOUR", ToJson(hist)>>)
=============================================================================
