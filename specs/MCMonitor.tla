---- MODULE MCMonitor ----
EXTENDS Monitor, Json
FP_none == <<>>
FP_heap == <<3, 1, 4, 5, 2>>
\* behaviour export for the replay on the real monitors (simulation mode): printed when the cascade is over
Export == (posted = 1 \/ Len(hist) >= 40) => PrintT(<<"BEHAVIOUR", ToJson(hist)>>)
\* counterexample export: a state which violates the property prints its history before TLC stops on it
ExportBad == HeapTopIsMin \/ PrintT(<<"BEHAVIOUR", ToJson(hist)>>)
====
