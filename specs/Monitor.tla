------------------------------ MODULE Monitor ------------------------------
(***************************************************************************)
(* engine/monitor.go: the bookkeeping of one event cascade (root monitor). *)
(*                                                                         *)
(* Implementation level: the counter `unfinished`, the map `incomplete`    *)
(* (priority -> number of activated, unfinished monitors; a partial        *)
(* function, decrementing a missing key yields -1 exactly like a Go map),  *)
(* and the heap of handled priorities - a transcription of                 *)
(* container/heap + sortutil.IntHeap.RemoveFirst (slice splice + Fix).     *)
(*                                                                         *)
(* Property level (C10, C02): HighestPriority() = the lowest priority      *)
(* number among the monitors which were activated by a triggering event    *)
(* and have not finished, -1 if there is none; the finished notification   *)
(* is posted exactly once, when every monitor has finished.                *)
(*                                                                         *)
(* Variant = "fixed": a skipped monitor is not counted and the heap is     *)
(* re-established after a removal (heap.Init).  Variant = "found": the     *)
(* code as found.                                                          *)
(***************************************************************************)
EXTENDS Integers, Sequences, FiniteSets, TLC

CONSTANTS N,        \* child monitors are 1..N (monitor 0 is the root, priority 0)
          Prios,    \* priorities a child may get
          Variant,
          FixedPrio, \* <<>> or a sequence: child m can only get priority FixedPrio[m] (directed configs)
          RecordHist

M == 0..N
\* Variant: "fixed" | "found" | "found-heap" (only the heap defect) | "found-skip" (only the skip defect)
SkipFix == Variant \in {"fixed", "found-heap"}
HeapFix == Variant \in {"fixed", "found-skip"}

VARIABLES mst,        \* [M -> {"none","new","active","done"}]
          prio,       \* [M -> Int]
          skipped,    \* [M -> BOOLEAN]
          unfinished, inc, heap, posted, hist

vars == <<mst, prio, skipped, unfinished, inc, heap, posted, hist>>
view == <<mst, prio, skipped, unfinished, inc, heap, posted>>

(* ---- container/heap on a 0-based array kept as a 1-based sequence ------- *)
At(h, i) == h[i + 1]
Swap(h, i, j) == [h EXCEPT ![i + 1] = h[j + 1], ![j + 1] = h[i + 1]]
Less(h, i, j) == At(h, i) < At(h, j)

RECURSIVE Up(_, _)
Up(h, j) == LET i == (j - 1) \div 2 IN
            IF j = 0 \/ i = j \/ ~ Less(h, j, i) THEN h ELSE Up(Swap(h, i, j), i)

\* returns <<heap, final index>>
RECURSIVE Down(_, _, _)
Down(h, i, n) ==
  LET j1 == 2 * i + 1 IN
  IF j1 >= n THEN <<h, i>>
  ELSE LET j2 == j1 + 1
           j == IF j2 < n /\ Less(h, j2, j1) THEN j2 ELSE j1 IN
       IF ~ Less(h, j, i) THEN <<h, i>> ELSE Down(Swap(h, i, j), j, n)

HeapPush(h, x) == Up(Append(h, x), Len(h))

Fix(h, i) == LET d == Down(h, i, Len(h)) IN IF d[2] > i THEN d[1] ELSE Up(h, i)

RECURSIVE InitFrom(_, _)
InitFrom(h, i) == IF i < 0 THEN h ELSE InitFrom(Down(h, i, Len(h))[1], i - 1)
HeapInit(h) == InitFrom(h, (Len(h) \div 2) - 1)

\* sortutil.IntHeap.RemoveFirst: scan; first match at 0-based i: if it is not the last element
\* splice it out and Fix(i), stop; if it is the last element truncate (the scan then ends).
RECURSIVE RemoveFirstFrom(_, _, _)
RemoveFirstFrom(h, r, i) ==
  IF i >= Len(h) THEN h
  ELSE IF At(h, i) = r
         THEN IF i + 1 < Len(h)
                THEN Fix(SubSeq(h, 1, i) \o SubSeq(h, i + 2, Len(h)), i)
                ELSE SubSeq(h, 1, i)
         ELSE RemoveFirstFrom(h, r, i + 1)
RemoveFirst(h, r) == LET h2 == RemoveFirstFrom(h, r, 0) IN
                     IF HeapFix THEN HeapInit(h2) ELSE h2

(* ---- the monitor protocol ----------------------------------------------------- *)
Init == /\ mst = [m \in M |-> IF m = 0 THEN "new" ELSE "none"]
        /\ prio = [m \in M |-> 0]
        /\ skipped = [m \in M |-> FALSE]
        /\ unfinished = 1 /\ inc = <<>> /\ heap = <<>> /\ posted = 0 /\ hist = <<>>

\* behaviour export: the operation and the property-level expectation for the successor state
ActiveN == {m \in M : mst'[m] = "active"}
HighestN == IF ActiveN = {} THEN -1 ELSE CHOOSE x \in {prio'[m] : m \in ActiveN} : \A y \in {prio'[m] : m \in ActiveN} : x <= y
Log(e) == hist' = IF RecordHist THEN Append(hist, e \o <<HighestN>>) ELSE hist

\* NewChildMonitor(p) called by a running rule action (some monitor is active): unfinished++
Create(m, p) ==
  /\ m > 0 /\ mst[m] = "none" /\ (m = 1 \/ mst[m - 1] # "none")
  /\ IF FixedPrio = <<>> THEN TRUE ELSE p = FixedPrio[m]
  /\ \E a \in M : mst[a] = "active"
  /\ mst' = [mst EXCEPT ![m] = "new"] /\ prio' = [prio EXCEPT ![m] = p]
  /\ unfinished' = unfinished + 1
  /\ UNCHANGED <<skipped, inc, heap, posted>>
  /\ Log(<<"create", m, p>>)

IncAdd(f, p, d) == [x \in DOMAIN f \cup {p} |-> IF x = p THEN (IF p \in DOMAIN f THEN f[p] ELSE 0) + d ELSE f[x]]
IncDel(f, p) == [x \in DOMAIN f \ {p} |-> f[x]]

\* Activate(event): descendantActivated
Activate(m) ==
  /\ mst[m] = "new"
  /\ mst' = [mst EXCEPT ![m] = "active"]
  /\ heap' = IF prio[m] \in DOMAIN inc THEN heap ELSE HeapPush(heap, prio[m])
  /\ inc' = IncAdd(inc, prio[m], 1)
  /\ UNCHANGED <<prio, skipped, unfinished, posted>>
  /\ Log(<<"activate", m, prio[m]>>)

\* the bookkeeping of descendantFinished for a monitor which is counted in `incomplete`
Uncount(p) ==
  LET f == IncAdd(inc, p, -1) IN
  IF f[p] = 0 THEN /\ heap' = RemoveFirst(heap, p) /\ inc' = IncDel(f, p)
              ELSE /\ heap' = heap /\ inc' = f

FinishCommon == /\ unfinished' = unfinished - 1
                /\ posted' = IF unfinished - 1 = 0 THEN posted + 1 ELSE posted

\* Skip(event): the monitor ends without having been activated by a triggering event.
\* Code as found: it is marked activated, so finishing it decrements a counter it never incremented.
Skip(m) ==
  /\ mst[m] = "new"
  /\ mst' = [mst EXCEPT ![m] = "done"] /\ skipped' = [skipped EXCEPT ![m] = TRUE]
  /\ FinishCommon
  /\ IF SkipFix THEN UNCHANGED <<inc, heap>> ELSE Uncount(prio[m])
  /\ UNCHANGED prio
  /\ Log(<<"skip", m, prio[m]>>)

Finish(m) ==
  /\ mst[m] = "active"
  /\ mst' = [mst EXCEPT ![m] = "done"]
  /\ FinishCommon
  /\ Uncount(prio[m])
  /\ UNCHANGED <<prio, skipped>>
  /\ Log(<<"finish", m, prio[m]>>)

Next == \/ \E m \in M, p \in Prios : Create(m, p)
        \/ \E m \in M : Activate(m) \/ Skip(m) \/ Finish(m)

Spec == Init /\ [][Next]_vars

(* ---- property level --------------------------------------------------------------- *)
Active == {m \in M : mst[m] = "active"}
Min(S) == CHOOSE x \in S : \A y \in S : x <= y
Highest == IF Active = {} THEN -1 ELSE Min({prio[m] : m \in Active})
Reported == IF heap = <<>> THEN -1 ELSE heap[1]          \* RootMonitor.HighestPriority()

HeapTopIsMin == Reported = Highest
PostedOnce == posted <= 1
PostedMeansAllDone == posted = 1 => \A m \in M : mst[m] \in {"none", "done"}
AllDoneMeansPosted == (\A m \in M : mst[m] \in {"none", "done"}) => posted = 1
CounterIsUnfinished == unfinished = Cardinality({m \in M : mst[m] \in {"new", "active"}})
=============================================================================
