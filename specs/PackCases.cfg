CONSTANTS B1 <- EnvB1 B2 <- EnvB2 MLen <- EnvMLen Variant = "code"
CONSTANT Lengths <- MCLengths
CONSTANT Descs <- MCDescs
CONSTANT Desc <- MCDesc
CONSTANT ZLens <- MCZLens
INIT NoInit
NEXT NoNext
CHECK_DEADLOCK FALSE
