SPECIFICATION Spec
CONSTANTS Variant = "bogus" RecordHist = FALSE MaxCmds = 5
CONSTANT Threads <- MCThreads1
CONSTANT Prog <- MCProgErr
CONSTANT Lines <- MCLines
INVARIANT TypeOK
INVARIANT NoLostWakeup
INVARIANT ContinueReleases
INVARIANT BreakpointsSuspend
PROPERTY StopReleasesAll
CHECK_DEADLOCK FALSE
