----------------------------- MODULE RuleIndex -----------------------------
(***************************************************************************)
(* Implementation-level model of engine/rule.go + engine/processor.go      *)
(* (AddEvent / IsTriggering cache / ProcessEvent) checked against the      *)
(* reference definition RuleMatch for every small rule set and history.    *)
(*                                                                         *)
(* What the model keeps from the code:                                     *)
(*  - the index is consulted per (rule, kind pattern) entry and the        *)
(*    results are concatenated (a rule with two matching patterns appears  *)
(*    twice in Match);                                                     *)
(*  - state rules of one kind pattern share a leaf with one bit per rule;  *)
(*    a leaf has LeafCap bits (64 in the code, small here);                *)
(*  - AddEvent consults a cache of the kind-only triggering pre-check.     *)
(* Variant "found": cache keyed by event NAME, no de-duplication, a single *)
(* leaf per pattern (entries beyond LeafCap get mask 0; collecting a match *)
(* in the last bit never terminates).  Variant "code": cache keyed by      *)
(* KIND, each rule once, leaves chained when full.                         *)
(* Rules can be added between runs (AddRule: the processor is stopped, so  *)
(* the step is atomic): the code forgets every cached pre-check.  Variant  *)
(* "stale-cache" forgets only the entries whose key is one of the new      *)
(* rule's kind patterns - a wildcard pattern leaves negative entries       *)
(* behind and a later event of such a kind is skipped.                     *)
(***************************************************************************)
EXTENDS RuleMatch, TLC

CONSTANTS RuleSets,   \* set of rule sequences (the universe of rule sets)
          Events,     \* set of events [name, kind, state]
          Scopes,     \* set of cascade scopes
          MaxHist, LeafCap, Variant,
          Extra,      \* rules which may be added later (between runs)
          MaxAdds, MaxRules

VARIABLES rules, scope, cache, n, last, adds
vars == <<rules, scope, cache, n, last, adds>>

NoOutcome == [e |-> <<>>, fired |-> <<>>, skipped |-> FALSE, hang |-> FALSE, valid |-> FALSE]

Init == /\ rules \in RuleSets /\ scope \in Scopes /\ cache = <<>> /\ n = 0 /\ last = NoOutcome /\ adds = 0

(* ---- the index ------------------------------------------------------------------------- *)
\* kind-only pre-check: some pattern of some rule matches the kind
IsTrigI(e) == \E j \in 1..Len(rules) : \E p \in 1..Len(rules[j].kinds) : KindMatches(rules[j].kinds[p], e.kind)

\* position of entry (j, p) in the state leaf of its pattern: number of earlier state entries with the same pattern
Entries == {x \in (1..Len(rules)) \X (1..2) : x[2] <= Len(rules[x[1]].kinds)}
Earlier(a, b) == a[1] < b[1] \/ (a[1] = b[1] /\ a[2] < b[2])
LeafPos(x) == Cardinality({y \in Entries : rules[y[1]].hasstate /\ rules[y[1]].kinds[y[2]] = rules[x[1]].kinds[x[2]] /\ Earlier(y, x)})

EntryMatches(x, e) ==
  /\ KindMatches(rules[x[1]].kinds[x[2]], e.kind)
  /\ (rules[x[1]].hasstate =>
        /\ StateMatches(rules[x[1]].state, e.state)
        /\ (Variant = "found" => LeafPos(x) < LeafCap))      \* entries beyond the leaf have no bit

\* the collection loop runs for ever when the last bit of a full single leaf is set
Hangs(e) == Variant = "found" /\ \E x \in Entries : rules[x[1]].hasstate /\ LeafPos(x) = LeafCap - 1 /\ EntryMatches(x, e)

\* Match: one result per matching entry, in index order (here: entry order); a sequence of rule positions
RECURSIVE MatchFrom(_, _, _)
MatchFrom(e, j, p) ==
  IF j > Len(rules) THEN <<>>
  ELSE IF p > Len(rules[j].kinds) THEN MatchFrom(e, j + 1, 1)
  ELSE (IF EntryMatches(<<j, p>>, e) THEN <<j>> ELSE <<>>) \o MatchFrom(e, j, p + 1)
MatchI(e) == MatchFrom(e, 1, 1)

RECURSIVE Dedupe(_)
Dedupe(s) == IF s = <<>> THEN <<>>
             ELSE LET r == Dedupe(SubSeq(s, 1, Len(s) - 1)) IN
                  IF \E k \in 1..Len(r) : r[k] = s[Len(s)] THEN r ELSE Append(r, s[Len(s)])

(* ---- ProcessEvent ------------------------------------------------------------------------ *)
InScope(j) == \A k \in 1..Len(rules[j].scope) : Allowed(scope, rules[j].scope[k])
Executed(e) ==
  LET cand == IF Variant = "found" THEN MatchI(e) ELSE Dedupe(MatchI(e))
      trig == SelectSeq(cand, InScope)
      supp == UNION {SeqToSet(rules[trig[k]].suppress) : k \in 1..Len(trig)}
      NotSupp(j) == rules[j].name \notin supp
      exec == SelectSeq(trig, NotSupp) IN
  [k \in 1..Len(exec) |-> rules[exec[k]].name]

(* ---- AddEvent ------------------------------------------------------------------------------ *)
CacheKey(e) == IF Variant = "found" THEN <<e.name>> ELSE e.kind

AddEvent(e) ==
  /\ n < MaxHist /\ n' = n + 1
  /\ LET key == CacheKey(e)
         trig == IF key \in DOMAIN cache THEN cache[key] ELSE IsTrigI(e) IN
     /\ cache' = [x \in DOMAIN cache \cup {key} |-> IF x = key THEN trig ELSE cache[x]]
     /\ last' = IF ~ trig THEN [e |-> e, fired |-> <<>>, skipped |-> TRUE, hang |-> FALSE, valid |-> TRUE]
                ELSE [e |-> e, fired |-> Executed(e), skipped |-> FALSE, hang |-> Hangs(e), valid |-> TRUE]
  /\ UNCHANGED <<rules, scope, adds>>

(* ---- AddRule (between two runs of the processor) ------------------------------------------ *)
NameAt(j) == IF j = 1 THEN "r1" ELSE IF j = 2 THEN "r2" ELSE IF j = 3 THEN "r3" ELSE "r4"
AddRule(r) ==
  /\ adds < MaxAdds /\ Len(rules) < MaxRules /\ adds' = adds + 1
  /\ rules' = Append(rules, [r EXCEPT !.name = NameAt(Len(rules) + 1)])
  /\ cache' = IF Variant = "stale-cache"
                THEN [x \in DOMAIN cache \ {r.kinds[p] : p \in 1..Len(r.kinds)} |-> cache[x]]
                ELSE <<>>
  /\ last' = NoOutcome
  /\ UNCHANGED <<scope, n>>

Next == (\E e \in Events : AddEvent(e)) \/ (\E r \in Extra : AddRule(r))
Spec == Init /\ [][Next]_vars

(* ---- C01 ---------------------------------------------------------------------------------------- *)
FiredExactly == last.valid =>
   LET f == Fires(rules, last.e, scope) IN
   /\ SeqToSet(last.fired) = f
   /\ Len(last.fired) = Cardinality(f)
NeverSkippedIfFires == last.valid => (last.skipped => Fires(rules, last.e, scope) = {})
Terminates == ~ last.hang
PreCheckOverApproximates == \A e \in Events : (MatchNames(rules, e) # {}) => IsTrigI(e)
=============================================================================
