---------------------------- MODULE ImportPathRef ----------------------------
(***************************************************************************)
(* The reference of C17 (see ImportPath.tla): directory universe, lexical  *)
(* walk and expected outcome of resolving a path against a root.           *)
(***************************************************************************)
EXTENDS Integers, Sequences, FiniteSets

\* locations are sequences of names below base
InsideFiles == { <<"root", "a">>, <<"root", "b", "a">>, <<"root", "b", "c", "a">>, <<"root", "d.x">>, <<"root", "s p", "a">>, <<"root", "..x">>,
                 <<"root", "root", "a">>, <<"root", "c">>, <<"root", "b.ecal">> }     \* (b.ecal: the nested root's name plus an extension)
OutsideFiles == { <<"root.ecal">>, <<"a">>, <<"b">>, <<"c">>, <<"rootx">>, <<"root2", "a">>, <<"d.x">>, <<"..x">> }
Files == InsideFiles \cup OutsideFiles

Segs == {"a", "b", "c", ".", "..", "", "..x", "d.x", "s p", "root", "root2"}

CoreSegs == {"a", "b", "..", "", ".", "root"}

\* spellings of the root (relative ones are relative to the working directory: base, for "dot" base/root)
Roots == {"abs", "rel", "dotrel", "trailing", "updown", "dot", "nested", "nestedabs"}
RootLoc(r) == IF r \in {"nested", "nestedabs"} THEN <<"root", "b">> ELSE <<"root">>

RECURSIVE Walk(_, _)
Walk(stack, segs) ==
  IF segs = <<>> THEN stack
  ELSE LET s == Head(segs) IN
       Walk(IF s = "." \/ s = "" THEN stack
            ELSE IF s = ".." THEN (IF stack = <<>> THEN <<>> ELSE SubSeq(stack, 1, Len(stack) - 1))
            ELSE Append(stack, s), Tail(segs))

\* the base directory sits below some directories of its own, so ".." from base leaves the universe
Up == <<"__up1__", "__up2__", "__up3__", "__up4__", "__up5__", "__up6__", "__up7__">>
Target(r, path) == Walk(Up \o RootLoc(r), path)
Inside(r, t) == LET n == Len(Up) + Len(RootLoc(r)) IN Len(t) >= n /\ SubSeq(t, 1, n) = Up \o RootLoc(r)
Loc(t) == SubSeq(t, Len(Up) + 1, Len(t))            \* relative to base (only meaningful below base)

\* does the walk leave the root at some point (it may come back in by naming the root's own directories)?
Leaves(r, path) == \E k \in 0..Len(path) : ~Inside(r, Target(r, SubSeq(path, 1, k)))

\* cls "inside":  the walk stays inside the root and ends at a file: that file
\*     "reenter": the walk leaves the root and comes back to a file inside it: that file, or an error
\*                (a relative root such as "." does not know its own name; refusing is confinement too)
\*     "error":   the walk ends outside the root, at a directory or at nothing: an error
Expect(r, path) ==
  LET t == Target(r, path) IN
  IF Inside(r, t) /\ Loc(t) \in Files
  THEN [cls |-> IF Leaves(r, path) THEN "reenter" ELSE "inside", loc |-> Loc(t)]
  ELSE [cls |-> "error", loc |-> <<>>]
=============================================================================
