----------------------------- MODULE Lexer_Trace -----------------------------
(***************************************************************************)
(* Property-level validation of token streams of the real lexer (C18).     *)
(* A "src" record gives the source text as a sequence of bytes; each       *)
(* following "tok" record is one token with what the lexer reported:       *)
(* byte offset pos, line, col, kind and (for word tokens) the raw text.    *)
(* Allowed:                                                                *)
(*  1 the offset points at the token: the raw text of a word token is      *)
(*    found there; a string starts with a quote or r; a line comment is    *)
(*    located behind its #, a block comment behind its / and *             *)
(*  2 line = 1 + line feeds before the offset                              *)
(*  3 col  = 1 + bytes since the last line feed before the offset          *)
(* The result lists 10*i + k for record i violating clause k.              *)
(***************************************************************************)
EXTENDS Integers, Sequences, FiniteSets, TLC, Json, IOUtils

Trace == ndJsonDeserialize(IOEnv.VERIF_TRACE)
VARIABLES i, src, bad
vars == <<i, src, bad>>
Init == i = 1 /\ src = <<>> /\ bad = <<>>

LFsBefore(off) == {j \in 1..off : src[j] = 10}
TrueLine(off) == 1 + Cardinality(LFsBefore(off))
Max(S) == CHOOSE x \in S : \A y \in S : y <= x
TrueCol(off) == off - (IF LFsBefore(off) = {} THEN 0 ELSE Max(LFsBefore(off))) + 1

AtToken(e) ==
  /\ e.pos >= 0 /\ e.pos <= Len(src)
  /\ CASE e.kind = "word"   -> e.pos + Len(e.txt) <= Len(src) /\ SubSeq(src, e.pos + 1, e.pos + Len(e.txt)) = e.txt
       [] e.kind = "string" -> e.pos < Len(src) /\ src[e.pos + 1] \in {34, 39, 114}
       [] e.kind = "post"   -> e.pos >= 1 /\ src[e.pos] = 35
       [] e.kind = "pre"    -> e.pos >= 2 /\ src[e.pos - 1] = 47 /\ src[e.pos] = 42
       [] OTHER -> TRUE       \* error tokens: only line and column are judged

Next ==
  /\ i <= Len(Trace) /\ i' = i + 1
  /\ LET e == Trace[i] IN
     IF e.ev = "src" THEN src' = e.bytes /\ UNCHANGED bad
     ELSE /\ UNCHANGED src
          /\ bad' = bad \o (IF AtToken(e) THEN <<>> ELSE <<10 * i + 1>>)
                        \o (IF e.line = TrueLine(e.pos) THEN <<>> ELSE <<10 * i + 2>>)
                        \o (IF e.col = TrueCol(e.pos) THEN <<>> ELSE <<10 * i + 3>>)
Spec == Init /\ [][Next]_vars
Report == (i = Len(Trace) + 1) => PrintT(<<"TRACE-RESULT", Len(Trace), ToJson(bad)>>)
=============================================================================
