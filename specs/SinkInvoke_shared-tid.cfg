SPECIFICATION Spec
CONSTANTS
 Inv <- MC_Inv
 SinkOf <- MC_SinkOf
 Out <- MC_Out
 Variant = "shared-tid"
INVARIANTS OneInCrit
CHECK_DEADLOCK FALSE
