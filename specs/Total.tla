------------------------------- MODULE Total -------------------------------
(***************************************************************************)
(* Totality of the ECAL runtime (C06): every operator and built-in is a    *)
(* total function from argument vectors into Value or Error; a process     *)
(* level fault (panic, exit, dead worker) is not an outcome.               *)
(*                                                                         *)
(* The module defines the value universe, the case universe (built-in x    *)
(* argument vector, operator x operands, container access x index) and,    *)
(* where the language reference fixes it, the outcome class of a case:     *)
(* "value", "error" or "any" (either, but never a fault).  TLC writes the  *)
(* case universe with the expected class as ndjson (direction A); the      *)
(* driver executes every case on the real interpreter - plain, inside try  *)
(* and inside a sink on a pool worker - and the recorded outcomes are      *)
(* validated by Total_Trace.                                               *)
(***************************************************************************)
EXTENDS Integers, Sequences, FiniteSets, TLC, Json, IOUtils, SequencesExt

\* the value universe, by name (the driver renders them to ECAL literals)
Vals == {"null", "true", "0", "1", "-1", "0.5", "-0.5", "huge", "estr", "str", "numstr", "elist", "list", "emap", "map", "func", "nlist"}
Kind(v) == CASE v \in {"0", "1", "-1", "0.5", "-0.5", "huge"} -> "num" [] v \in {"estr", "str", "numstr"} -> "str"
             [] v \in {"elist", "list", "nlist"} -> "list" [] v \in {"emap", "map"} -> "map"
             [] v = "true" -> "bool" [] v = "func" -> "func" [] OTHER -> "null"
ListLen(v) == CASE v = "elist" -> 0 [] v = "list" -> 3 [] v = "nlist" -> 2 [] OTHER -> 0
IntVal(v) == CASE v = "0" -> 0 [] v = "1" -> 1 [] v = "-1" -> -1 [] OTHER -> 99     \* 0.5 / huge are no valid positions

Builtins == {"range", "new", "type", "len", "del", "add", "concat", "now", "rand", "timestamp", "dumpenv", "doc",
             "sleep", "raise", "addEvent", "addEventAndWait", "setCronTrigger", "setPulseTrigger"}

\* outcome class where the reference fixes it
Class(fn, a) ==
  LET n == Len(a) IN
  CASE fn = "len" -> IF n >= 1 /\ Kind(a[1]) \in {"list", "map"} THEN "value" ELSE "error"      \* (surplus arguments are ignored)
    [] fn = "type" -> IF n >= 1 THEN "value" ELSE "error"
    [] fn = "raise" -> "error"                                            \* raise never yields a value
    [] fn = "concat" -> IF n >= 2 /\ \A j \in 1..n : Kind(a[j]) = "list" THEN "value" ELSE IF n < 2 \/ \E j \in 1..n : Kind(a[j]) # "list" THEN "error" ELSE "any"
    [] fn = "del" -> IF n # 2 THEN "error"
                     ELSE IF Kind(a[1]) = "map" THEN "value"
                     ELSE IF Kind(a[1]) = "list" THEN (IF a[2] \notin {"0", "1", "-1"} THEN (IF Kind(a[2]) \in {"num", "str"} THEN "any" ELSE "error")
                                                      ELSE IF IntVal(a[2]) >= 0 /\ IntVal(a[2]) < ListLen(a[1]) THEN "value" ELSE "error")
                     ELSE "error"
    [] fn = "add" -> IF n < 2 \/ n > 3 \/ Kind(a[1]) # "list" THEN "error"
                     ELSE IF n = 2 THEN "value"
                     ELSE IF a[3] \notin {"0", "1", "-1"} THEN (IF Kind(a[3]) \in {"num", "str"} THEN "any" ELSE "error")
                     ELSE IF IntVal(a[3]) >= 0 /\ IntVal(a[3]) <= ListLen(a[1]) THEN "value" ELSE "error"
    [] fn = "new" -> IF n >= 1 /\ Kind(a[1]) = "map" THEN "any" ELSE "error"
    [] OTHER -> "any"

Vec(n) == [1..n -> Vals]
BuiltinCases == {[k |-> "builtin", fn |-> fn, args |-> a, op |-> "", exp |-> Class(fn, a)] :
                   fn \in Builtins, a \in Vec(0) \cup Vec(1) \cup Vec(2)}
                \cup {[k |-> "builtin", fn |-> fn, args |-> a, op |-> "", exp |-> Class(fn, a)] :
                   fn \in {"add", "concat", "range", "raise", "new", "addEvent"}, a \in {v \in Vec(3) : v[1] \in {"list", "elist", "map", "str", "1"}}}

\* thorough tier: every built-in with every vector of three values of a smaller universe
SmallVals == {"null", "1", "-1", "huge", "str", "list", "map", "func"} \cap Vals
DeepCases == IF IOEnv.VERIF_TIER = "thorough"
             THEN {[k |-> "builtin", fn |-> fn, args |-> a, op |-> "", exp |-> Class(fn, a)] : fn \in Builtins, a \in [1..3 -> SmallVals]}
             ELSE {}

BinOps == {"*", "/", "//", "%", "+", "-", ">=", "<=", "!=", "==", ">", "<", "like", "in", "notin", "hasprefix", "hassuffix", "and", "or"}
OpClass(op, l, r) ==
  CASE op \in {"*", "/", "//", "+", "-"} -> IF Kind(l) = "num" /\ Kind(r) = "num" THEN "value" ELSE "error"
    [] op = "%" -> IF Kind(l) = "num" /\ Kind(r) = "num" THEN (IF r \in {"0", "0.5", "-0.5"} THEN "error" ELSE "value") ELSE "error"
    [] op \in {"and", "or"} -> IF Kind(l) = "bool" /\ Kind(r) = "bool" THEN "value" ELSE "error"
    [] op \in {"in", "notin"} -> IF Kind(r) = "list" THEN "value" ELSE "error"
    [] OTHER -> "any"                          \* comparisons / like ... across all kinds: any, never a fault
OpCases == {[k |-> "binop", fn |-> "", args |-> <<l, r>>, op |-> op, exp |-> OpClass(op, l, r)] : op \in BinOps, l \in Vals, r \in Vals}
UnCases == {[k |-> "unop", fn |-> "", args |-> <<v>>, op |-> op,
             exp |-> IF (op = "not" /\ Kind(v) = "bool") \/ (op \in {"-", "+"} /\ Kind(v) = "num") THEN "value" ELSE "error"] :
              op \in {"-", "+", "not"}, v \in Vals}

\* container access c[i] (read) and c[i] := 1 (write): lists with boundary indices, maps with any key
Idx == {"-4", "-3", "-1", "0", "2", "3", "1.5", "str", "null", "list"}
IdxInt(i) == CASE i = "-4" -> -4 [] i = "-3" -> -3 [] i = "-1" -> -1 [] i = "0" -> 0 [] i = "2" -> 2 [] i = "3" -> 3 [] OTHER -> 99
AccClass(c, i) ==
  IF Kind(c) = "list" THEN (IF IdxInt(i) # 99 /\ IdxInt(i) >= -ListLen(c) /\ IdxInt(i) < ListLen(c) THEN "value" ELSE "error")
  ELSE IF Kind(c) = "map" THEN "any"
  ELSE "any"
AccCases == {[k |-> rw, fn |-> "", args |-> <<c, i>>, op |-> "", exp |-> AccClass(c, i)] : rw \in {"read", "write"}, c \in Vals, i \in Idx}

\* statements whose guard / iterator / attribute has the wrong kind
StmtCases == {[k |-> st, fn |-> "", args |-> <<v>>, op |-> "", exp |-> "any"] :
                st \in {"ifguard", "forguard", "forin", "kindmatch", "statematch", "scopematch", "priority", "suppresses", "eventstate", "interp", "mapitem", "mapkey", "mapaccesskey"},
                v \in Vals}

Cases == BuiltinCases \cup DeepCases \cup OpCases \cup UnCases \cup AccCases \cup StmtCases
ASSUME PrintT(<<"CASES", Cardinality(Cases)>>)
ASSUME ndJsonSerialize(IOEnv.VERIF_OUT, SetToSeq(Cases))
=============================================================================
