------------------------------ MODULE ParseProc ------------------------------
(***************************************************************************)
(* parser/lexer.go Lex + parser/helper.go LABuffer + parser/parser.go      *)
(* (C07): the lexer is a goroutine which sends NTok tokens (the last one   *)
(* is EOF or an error token) over an unbuffered channel and then closes    *)
(* it; the parser reads through a look-ahead buffer (one blocking receive  *)
(* at construction, later one blocking receive per consumed token unless   *)
(* the channel is closed) and may stop at any token with an error.         *)
(* Variant "found": the parser simply returns.  Variant "drained": on      *)
(* every exit the parser receives until the channel is closed.             *)
(* Property: once the parser has returned the lexer goroutine terminates - *)
(* nothing is left blocked for ever.                                       *)
(***************************************************************************)
EXTENDS Integers, Sequences, TLC

CONSTANTS MaxTok, Variant

VARIABLES ntok,     \* tokens the lexer will send
          stopAt,   \* the parser reports an error after consuming this many tokens (0 = parses to the end)
          sent,     \* tokens handed over so far
          lpc,      \* "sending" | "closed"
          ppc,      \* "parsing" | "draining" | "returned"
          consumed
vars == <<ntok, stopAt, sent, lpc, ppc, consumed>>

Init == /\ ntok \in 1..MaxTok /\ stopAt \in 0..MaxTok /\ sent = 0 /\ lpc = "sending" /\ ppc = "parsing" /\ consumed = 0

\* rendezvous: the lexer's send completes only together with a receive of the parser (parsing or draining)
Transfer == /\ lpc = "sending" /\ sent < ntok /\ ppc \in {"parsing", "draining"}
            /\ (ppc = "parsing" => sent < consumed + 3)         \* look-ahead of 3
            /\ sent' = sent + 1 /\ UNCHANGED <<ntok, stopAt, lpc, ppc, consumed>>
Close == /\ lpc = "sending" /\ sent = ntok /\ lpc' = "closed" /\ UNCHANGED <<ntok, stopAt, sent, ppc, consumed>>
Consume == /\ ppc = "parsing" /\ consumed < sent /\ (stopAt = 0 \/ consumed < stopAt)
           /\ consumed' = consumed + 1 /\ UNCHANGED <<ntok, stopAt, sent, lpc, ppc>>
\* the parser leaves: with an error at stopAt, or after the last token
Leave == /\ ppc = "parsing" /\ ((stopAt > 0 /\ consumed = stopAt) \/ consumed = ntok)
         /\ ppc' = IF Variant = "drained" THEN "draining" ELSE "returned"
         /\ UNCHANGED <<ntok, stopAt, sent, lpc, consumed>>
Drained == /\ ppc = "draining" /\ lpc = "closed" /\ ppc' = "returned" /\ UNCHANGED <<ntok, stopAt, sent, lpc, consumed>>

Next == Transfer \/ Close \/ Consume \/ Leave \/ Drained
Spec == Init /\ [][Next]_vars /\ WF_vars(Next)

\* a state without successor: the parser has returned and the lexer is gone
NoLeak == (~ ENABLED Next) => (ppc = "returned" /\ lpc = "closed")
Terminates == <>(ppc = "returned" /\ lpc = "closed")
=============================================================================
