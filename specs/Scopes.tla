------------------------------- MODULE Scopes -------------------------------
(***************************************************************************)
(* Reference semantics of names, functions and containers in ECAL (C05).   *)
(*                                                                         *)
(* State: frames (the scope tree: each frame has its variables and a       *)
(* parent; block statements open a child frame of the current one, a       *)
(* function call opens a frame whose parent is the frame the function was  *)
(* DECLARED in), heap (lists and maps live here: they are passed by        *)
(* reference), log (markers).                                              *)
(* Values: [t |-> "num", n]  [t |-> "null"]  [t |-> "str", s]              *)
(*         [t |-> "fn", f, env]  closure: function table index + frame     *)
(*         [t |-> "ref", a]      list or map at heap address a             *)
(* heap[a] = [kind |-> "list", items]  or  [kind |-> "map", keys, vals]    *)
(*           (map keys are values "num" / "str": key 1 and key "1" are     *)
(*           different keys)                                               *)
(* Expressions e.t: num str null var add(a,b) fn(f) call(fe,args)          *)
(*   list(items) map(keys,vals) idx(c,k) len(c) new(c,args)                *)
(* Statements s.k: assign(x,e) let(x,e) block(b) mark(e) return(e)         *)
(*   setidx(c,kk,e) addl(c,e) dell(c,kk) expr(e) ifpos(e,b)                *)
(* Function table: funcs[f] = [params |-> << [x, hasdef, def] ... >>, b]   *)
(* An evaluation returns [v, st, ok]; ok = FALSE is a runtime error.       *)
(***************************************************************************)
EXTENDS Integers, Sequences, FiniteSets

NumV(n) == [t |-> "num", n |-> n]
NullV == [t |-> "null"]
StrV(s) == [t |-> "str", s |-> s]
FnV(f, env) == [t |-> "fn", f |-> f, env |-> env, this |-> 0, super |-> <<>>]    \* this / super: set for methods of objects
RefV(a) == [t |-> "ref", a |-> a]

Frame(vars, parent) == [vars |-> vars, parent |-> parent]
State(frames, heap, log) == [frames |-> frames, heap |-> heap, log |-> log]
Res(v, st, ok) == [v |-> v, st |-> st, ok |-> ok]

Has(fr, x) == x \in DOMAIN fr.vars
\* nearest frame (from sc up through the parents) which defines x; 0 if none
RECURSIVE Defining(_, _, _)
Defining(frames, sc, x) == IF sc = 0 THEN 0 ELSE IF Has(frames[sc], x) THEN sc ELSE Defining(frames, frames[sc].parent, x)
SetIn(frames, sc, x, v) ==
  [frames EXCEPT ![sc].vars = [y \in DOMAIN frames[sc].vars \cup {x} |-> IF y = x THEN v ELSE frames[sc].vars[y]]]
Lookup(st, sc, x) == LET d == Defining(st.frames, sc, x) IN IF d = 0 THEN NullV ELSE st.frames[d].vars[x]
\* assignment: the nearest enclosing definition is updated, else the name is defined in the current scope
Assign(st, sc, x, v) == LET d == Defining(st.frames, sc, x) IN
                        [st EXCEPT !.frames = SetIn(st.frames, IF d = 0 THEN sc ELSE d, x, v)]
LetIn(st, sc, x, v) == [st EXCEPT !.frames = SetIn(st.frames, sc, x, v)]
NewFrame(st, parent) == [st EXCEPT !.frames = Append(st.frames, Frame(<<>>, parent))]
Alloc(st, obj) == [st EXCEPT !.heap = Append(st.heap, obj)]

KeyPos(obj, k) == IF \E j \in 1..Len(obj.keys) : obj.keys[j] = k
                  THEN CHOOSE j \in 1..Len(obj.keys) : obj.keys[j] = k ELSE 0
\* list index: the documented domain -len .. len-1
ListPos(obj, kv) == IF kv.t # "num" THEN 0
                    ELSE IF kv.n >= 0 /\ kv.n < Len(obj.items) THEN kv.n + 1
                    ELSE IF kv.n < 0 /\ -kv.n <= Len(obj.items) THEN Len(obj.items) + kv.n + 1 ELSE 0

\* what a marker shows of a value: numbers and strings themselves, NULL, a function, a container by its length
Shown(st, v) == CASE v.t = "num" -> [t |-> "num", n |-> v.n, s |-> ""]
                  [] v.t = "str" -> [t |-> "str", n |-> 0, s |-> v.s]
                  [] v.t = "null" -> [t |-> "null", n |-> 0, s |-> ""]
                  [] v.t = "fn" -> [t |-> "fn", n |-> 0, s |-> ""]
                  [] OTHER -> [t |-> "cont", n |-> (LET o == st.heap[v.a] IN IF o.kind = "list" THEN Len(o.items) ELSE Len(o.keys)), s |-> ""]

CONSTANT MaxDepth     \* bound for the call depth (recursion in generated programs is bounded)

RECURSIVE EvalE(_, _, _, _, _), EvalArgs(_, _, _, _, _, _, _), ExecB(_, _, _, _, _, _), ExecS(_, _, _, _, _), Bind(_, _, _, _, _, _, _)
RECURSIVE AddSuper(_, _, _), AddSupers(_, _, _, _, _), CopyProps(_, _, _, _, _, _), CallFn(_, _, _, _, _)

\* new: the object gets the properties of the super templates first (depth first, in list order), then those of
\* the template itself; functions become methods bound to the object (this); init additionally gets the list
\* of the super constructors (super).  Returns [st, init (a function value or NULL), ok].
AddSupers(st, objA, list, j, acc) ==
  IF j > Len(list) THEN [st |-> st, inits |-> acc, ok |-> TRUE]
  ELSE IF list[j].t # "ref" \/ st.heap[list[j].a].kind # "map" THEN AddSupers(st, objA, list, j + 1, acc)
  ELSE LET r == AddSuper(st, objA, list[j].a) IN
       IF ~ r.ok THEN [st |-> r.st, inits |-> acc, ok |-> FALSE]
       ELSE AddSupers(r.st, objA, list, j + 1, Append(acc, r.init))

CopyProps(st, objA, tmpl, j, inits, initfn) ==
  IF j > Len(tmpl.keys) THEN [st |-> st, init |-> initfn, ok |-> TRUE]
  ELSE LET k == tmpl.keys[j]
           v == tmpl.vals[j]
           isInit == k = StrV("init")
           nv == IF v.t = "fn" THEN [v EXCEPT !.this = objA, !.super = IF isInit THEN inits ELSE <<>>] ELSE v
           obj == st.heap[objA]
           p == KeyPos(obj, k)
           obj2 == IF p = 0 THEN [obj EXCEPT !.keys = Append(@, k), !.vals = Append(@, nv)] ELSE [obj EXCEPT !.vals[p] = nv]
       IN CopyProps([st EXCEPT !.heap[objA] = obj2], objA, tmpl, j + 1, inits, IF isInit /\ v.t = "fn" THEN nv ELSE initfn)

AddSuper(st, objA, tA) ==
  LET tmpl == st.heap[tA]
      sp == KeyPos(tmpl, StrV("super"))
      sups == IF sp = 0 THEN [st |-> st, inits |-> <<>>, ok |-> TRUE]
              ELSE IF tmpl.vals[sp].t # "ref" \/ st.heap[tmpl.vals[sp].a].kind # "list" THEN [st |-> st, inits |-> <<>>, ok |-> FALSE]
              ELSE AddSupers(st, objA, st.heap[tmpl.vals[sp].a].items, 1, <<>>)
  IN IF ~ sups.ok THEN [st |-> sups.st, init |-> NullV, ok |-> FALSE]
     ELSE CopyProps(sups.st, objA, tmpl, 1, sups.inits, NullV)

\* evaluate a sequence of expressions left to right: [vs, st, ok]
EvalArgs(es, j, acc, sc, st, funcs, d) ==
  IF j > Len(es) THEN [vs |-> acc, st |-> st, ok |-> TRUE]
  ELSE LET r == EvalE(es[j], sc, st, funcs, d) IN
       IF ~ r.ok THEN [vs |-> acc, st |-> r.st, ok |-> FALSE]
       ELSE EvalArgs(es, j + 1, Append(acc, r.v), sc, r.st, funcs, d)

\* bind parameters in the fresh frame fr: positional, then defaults, else NULL; surplus arguments are ignored
Bind(params, j, args, fr, st, funcs, d) ==
  IF j > Len(params) THEN Res(NullV, st, TRUE)
  ELSE IF j <= Len(args) THEN Bind(params, j + 1, args, fr, LetIn(st, fr, params[j].x, args[j]), funcs, d)
  ELSE IF params[j].hasdef
         THEN LET r == EvalE(params[j].def, fr, st, funcs, d) IN      \* (defaults are constants in the generated programs)
              IF ~ r.ok THEN r ELSE Bind(params, j + 1, args, fr, LetIn(r.st, fr, params[j].x, r.v), funcs, d)
  ELSE Bind(params, j + 1, args, fr, LetIn(st, fr, params[j].x, NullV), funcs, d)

EvalE(e, sc, st, funcs, d) ==
  CASE e.t = "num" -> Res(NumV(e.n), st, TRUE)
    [] e.t = "str" -> Res(StrV(e.s), st, TRUE)
    [] e.t = "null" -> Res(NullV, st, TRUE)
    [] e.t = "var" -> Res(Lookup(st, sc, e.x), st, TRUE)
    [] e.t = "fn" -> Res(FnV(e.f, sc), st, TRUE)                       \* a closure over the declaring scope
    [] e.t = "add" -> LET a == EvalE(e.a, sc, st, funcs, d) IN
                      IF ~ a.ok THEN a ELSE
                      LET b == EvalE(e.b, sc, a.st, funcs, d) IN
                      IF ~ b.ok THEN b
                      ELSE IF a.v.t = "num" /\ b.v.t = "num" THEN Res(NumV(a.v.n + b.v.n), b.st, TRUE)
                      ELSE Res(NullV, b.st, FALSE)
    [] e.t = "list" -> LET r == EvalArgs(e.items, 1, <<>>, sc, st, funcs, d) IN
                       IF ~ r.ok THEN Res(NullV, r.st, FALSE)
                       ELSE Res(RefV(Len(r.st.heap) + 1), Alloc(r.st, [kind |-> "list", items |-> r.vs, keys |-> <<>>, vals |-> <<>>]), TRUE)
    [] e.t = "map" -> LET ks == EvalArgs(e.keys, 1, <<>>, sc, st, funcs, d) IN
                      IF ~ ks.ok THEN Res(NullV, ks.st, FALSE) ELSE
                      LET vs == EvalArgs(e.vals, 1, <<>>, sc, ks.st, funcs, d) IN
                      IF ~ vs.ok THEN Res(NullV, vs.st, FALSE)
                      ELSE Res(RefV(Len(vs.st.heap) + 1), Alloc(vs.st, [kind |-> "map", items |-> <<>>, keys |-> ks.vs, vals |-> vs.vs]), TRUE)
    [] e.t = "idx" -> LET c == EvalE(e.c, sc, st, funcs, d) IN
                      IF ~ c.ok THEN c ELSE
                      LET k == EvalE(e.k, sc, c.st, funcs, d) IN
                      IF ~ k.ok THEN k
                      ELSE IF c.v.t # "ref" THEN Res(NullV, k.st, FALSE)
                      ELSE LET obj == k.st.heap[c.v.a] IN
                           IF obj.kind = "list"
                             THEN (IF ListPos(obj, k.v) = 0 THEN Res(NullV, k.st, FALSE) ELSE Res(obj.items[ListPos(obj, k.v)], k.st, TRUE))
                             ELSE (IF KeyPos(obj, k.v) = 0 THEN Res(NullV, k.st, TRUE) ELSE Res(obj.vals[KeyPos(obj, k.v)], k.st, TRUE))
    [] e.t = "len" -> LET c == EvalE(e.c, sc, st, funcs, d) IN
                      IF ~ c.ok THEN c
                      ELSE IF c.v.t # "ref" THEN Res(NullV, c.st, FALSE)
                      ELSE LET obj == c.st.heap[c.v.a] IN
                           Res(NumV(IF obj.kind = "list" THEN Len(obj.items) ELSE Len(obj.keys)), c.st, TRUE)
    [] e.t = "call" ->
         LET f == EvalE(e.fe, sc, st, funcs, d) IN
         IF ~ f.ok THEN f ELSE
         LET as == EvalArgs(e.args, 1, <<>>, sc, f.st, funcs, d) IN
         IF ~ as.ok THEN Res(NullV, as.st, FALSE)
         ELSE CallFn(f.v, as.vs, as.st, funcs, d)
    [] e.t = "new" ->
         LET tm == EvalE(e.c, sc, st, funcs, d) IN
         IF ~ tm.ok THEN tm ELSE
         LET as == EvalArgs(e.args, 1, <<>>, sc, tm.st, funcs, d) IN
         IF ~ as.ok THEN Res(NullV, as.st, FALSE)
         ELSE IF tm.v.t # "ref" \/ as.st.heap[tm.v.a].kind # "map" THEN Res(NullV, as.st, FALSE)
         ELSE LET st1 == Alloc(as.st, [kind |-> "map", items |-> <<>>, keys |-> <<>>, vals |-> <<>>])
                  objA == Len(st1.heap)
                  r == AddSuper(st1, objA, tm.v.a) IN
              IF ~ r.ok THEN Res(NullV, r.st, FALSE)
              ELSE LET ip == KeyPos(r.st.heap[objA], StrV("init")) IN
                   IF ip # 0 /\ r.st.heap[objA].vals[ip].t = "fn"
                     THEN (LET c == CallFn(r.st.heap[objA].vals[ip], as.vs, r.st, funcs, d) IN    \* init runs once with the constructor arguments
                           IF ~ c.ok THEN c ELSE Res(RefV(objA), c.st, TRUE))
                     ELSE Res(RefV(objA), r.st, TRUE)
    [] OTHER -> Res(NullV, st, FALSE)

\* a call: fresh frame whose parent is the declaration scope; methods see their object as `this`, init
\* additionally the super constructors as `super`
CallFn(fv, args, st, funcs, d) ==
  IF fv.t # "fn" \/ d >= MaxDepth THEN Res(NullV, st, FALSE)
  ELSE LET st1 == NewFrame(st, fv.env)
           fr == Len(st1.frames)
           st2 == IF fv.this = 0 THEN st1 ELSE LetIn(st1, fr, "this", RefV(fv.this))
           st3 == IF fv.super = <<>> THEN st2
                  ELSE LetIn(Alloc(st2, [kind |-> "list", items |-> fv.super, keys |-> <<>>, vals |-> <<>>]), fr, "super", RefV(Len(st2.heap) + 1))
           b == Bind(funcs[fv.f].params, 1, args, fr, st3, funcs, d) IN
       IF ~ b.ok THEN b
       ELSE LET r == ExecB(funcs[fv.f].b, 1, fr, b.st, funcs, d + 1) IN
            IF r.sig = "error" THEN Res(NullV, r.st, FALSE)
            ELSE Res(IF r.sig = "return" THEN r.v ELSE NullV, r.st, TRUE)

Out(st, sig, v) == [st |-> st, sig |-> sig, v |-> v]

ExecB(b, j, sc, st, funcs, d) ==
  IF j > Len(b) THEN Out(st, "normal", NullV)
  ELSE LET r == ExecS(b[j], sc, st, funcs, d) IN
       IF r.sig # "normal" THEN r ELSE ExecB(b, j + 1, sc, r.st, funcs, d)

ExecS(s, sc, st, funcs, d) ==
  CASE s.k \in {"assign", "let", "mark", "return", "expr"} ->
         LET r == EvalE(s.e, sc, st, funcs, d) IN
         IF ~ r.ok THEN Out(r.st, "error", NullV)
         ELSE CASE s.k = "assign" -> Out(Assign(r.st, sc, s.x, r.v), "normal", NullV)
                [] s.k = "let" -> Out(LetIn(r.st, sc, s.x, r.v), "normal", NullV)
                [] s.k = "mark" -> Out([r.st EXCEPT !.log = Append(@, Shown(r.st, r.v))], "normal", NullV)
                [] s.k = "return" -> Out(r.st, "return", r.v)
                [] OTHER -> Out(r.st, "normal", NullV)
    [] s.k = "ifpos" ->                                          \* if e > 0 { b }: a block scope when taken
         LET r == EvalE(s.e, sc, st, funcs, d) IN
         IF ~ r.ok \/ r.v.t # "num" THEN Out(r.st, "error", NullV)
         ELSE IF r.v.n > 0 THEN (LET st1 == NewFrame(r.st, sc) IN ExecB(s.b, 1, Len(st1.frames), st1, funcs, d))
         ELSE Out(r.st, "normal", NullV)
    [] s.k = "block" ->                                          \* nothing defined inside is visible outside
         LET st1 == NewFrame(st, sc) IN ExecB(s.b, 1, Len(st1.frames), st1, funcs, d)
    [] s.k \in {"setidx", "addl", "dell"} ->
         LET c == EvalE(s.c, sc, st, funcs, d) IN
         IF ~ c.ok \/ c.v.t # "ref" THEN Out(c.st, "error", NullV) ELSE
         LET k == IF s.k = "addl" THEN Res(NullV, c.st, TRUE) ELSE EvalE(s.kk, sc, c.st, funcs, d) IN
         IF ~ k.ok THEN Out(k.st, "error", NullV) ELSE
         LET v == IF s.k = "dell" THEN Res(NullV, k.st, TRUE) ELSE EvalE(s.e, sc, k.st, funcs, d) IN
         IF ~ v.ok THEN Out(v.st, "error", NullV) ELSE
         LET obj == v.st.heap[c.v.a]
             upd(o) == Out([v.st EXCEPT !.heap[c.v.a] = o], "normal", NullV) IN
         CASE s.k = "setidx" /\ obj.kind = "list" ->
                IF ListPos(obj, k.v) = 0 THEN Out(v.st, "error", NullV)
                ELSE upd([obj EXCEPT !.items[ListPos(obj, k.v)] = v.v])
           [] s.k = "setidx" /\ obj.kind = "map" ->
                IF k.v.t \notin {"num", "str"} THEN Out(v.st, "error", NullV)
                ELSE IF KeyPos(obj, k.v) = 0 THEN upd([obj EXCEPT !.keys = Append(@, k.v), !.vals = Append(@, v.v)])
                ELSE upd([obj EXCEPT !.vals[KeyPos(obj, k.v)] = v.v])
           [] s.k = "addl" /\ obj.kind = "list" -> upd([obj EXCEPT !.items = Append(@, v.v)])
           [] s.k = "dell" /\ obj.kind = "list" ->
                IF ListPos(obj, k.v) = 0 THEN Out(v.st, "error", NullV)
                ELSE LET p == ListPos(obj, k.v) IN upd([obj EXCEPT !.items = SubSeq(@, 1, p - 1) \o SubSeq(@, p + 1, Len(@))])
           [] s.k = "dell" /\ obj.kind = "map" ->
                IF KeyPos(obj, k.v) = 0 THEN Out(v.st, "normal", NullV)
                ELSE LET p == KeyPos(obj, k.v) IN
                     upd([obj EXCEPT !.keys = SubSeq(@, 1, p - 1) \o SubSeq(@, p + 1, Len(@)),
                                     !.vals = SubSeq(@, 1, p - 1) \o SubSeq(@, p + 1, Len(@))])
           [] OTHER -> Out(v.st, "error", NullV)
    [] OTHER -> Out(st, "error", NullV)

Run(prog) == ExecB(prog.body, 1, 1, State(<<Frame(<<>>, 0)>>, <<>>, <<>>), prog.funcs, 0)

=============================================================================
