SPECIFICATION Spec
CONSTANTS
 N = 5
 Variant = "found"
INVARIANTS TrueLines TrueColumnsExceptAfterLineComment
CHECK_DEADLOCK FALSE
