---- MODULE MCMutex ----
EXTENDS Mutex
E(n) == <<"enter", n>>
L == <<"leave">>
R == <<"raise">>
MC_Threads == {1, 2, 3}
MC_Names == {"a", "b"}
\* t1: nested same name, normal exits; t2: nested a/b with an abnormal exit from the inner block;
\* t3: two blocks in sequence, the second re-entered and left abnormally
MC_Script == [t \in MC_Threads |->
   IF t = 1 THEN <<E("a"), E("a"), L, L>>
   ELSE IF t = 2 THEN <<E("a"), E("b"), R>>
   ELSE <<E("b"), L, E("a"), E("a"), R>>]
====
