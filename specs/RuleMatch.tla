----------------------------- MODULE RuleMatch -----------------------------
(***************************************************************************)
(* Reference definition of which rules an event executes (C01):            *)
(* kind patterns, state patterns, cascade scope, suppression.              *)
(* Pure definitions - used by RuleMatch_Trace (validation of recorded      *)
(* cases of the real engine) and by RuleIndex (the implementation-level    *)
(* model of the index tree and the triggering cache).                      *)
(*                                                                         *)
(* Encodings (JSON shaped, so that recorded cases deserialize to them):    *)
(*   kind / pattern / scope path : sequence of segment strings             *)
(*   value   : [t, n, s, cs]  t in "num" | "str" | "null" | "cont"         *)
(*             (cont = list or map: never equal to anything);              *)
(*             cs = the characters of the value's text form (for regexes)  *)
(*   matcher : [k, t, n, s, anchs, anche, body]  key k with                *)
(*             t = "any" | "num" | "str" | "re"                            *)
(*   rule    : [name, kinds, hasstate, state, scope, suppress]             *)
(*   scope   : sequence of [path, allow]                                   *)
(***************************************************************************)
EXTENDS Integers, Sequences, FiniteSets

SeqToSet(s) == {s[j] : j \in 1..Len(s)}

(* `*` matches exactly one segment; same number of segments *)
KindMatches(pat, kind) ==
  /\ Len(pat) = Len(kind)
  /\ \A j \in 1..Len(pat) : pat[j] = "*" \/ pat[j] = kind[j]

(* a structurally defined regular expression: optional anchors and a body of literal
   characters and "." (any one character); unanchored ends match anywhere *)
ReMatches(m, cs) ==
  \E pos \in 1..(Len(cs) + 1) :
     /\ (m.anchs => pos = 1)
     /\ pos + Len(m.body) - 1 <= Len(cs)
     /\ (m.anche => pos + Len(m.body) - 1 = Len(cs))
     /\ \A j \in 1..Len(m.body) : m.body[j] = "." \/ m.body[j] = cs[pos + j - 1]

ValueMatches(m, v) ==
  CASE m.t = "any" -> TRUE                       \* NULL in the rule: any value, the key must be present
    [] m.t = "num" -> v.t = "num" /\ v.n = m.n
    [] m.t = "str" -> v.t = "str" /\ v.s = m.s
    [] m.t = "re"  -> ReMatches(m, v.cs)
    [] OTHER -> FALSE

\* state: sequence of [k, v] (keys unique)
HasKey(state, k) == \E j \in 1..Len(state) : state[j].k = k
Lookup(state, k) == state[CHOOSE j \in 1..Len(state) : state[j].k = k].v

StateMatches(ms, state) ==
  \A j \in 1..Len(ms) : HasKey(state, ms[j].k) /\ ValueMatches(ms[j], Lookup(state, ms[j].k))

(* scope: the most specific defined prefix of the path decides; nothing defined: not allowed *)
IsPrefix(p, q) == Len(p) <= Len(q) /\ \A j \in 1..Len(p) : p[j] = q[j]
Allowed(scope, path) ==
  LET defs == {d \in SeqToSet(scope) : IsPrefix(d.path, path)} IN
  IF defs = {} THEN FALSE
  ELSE (CHOOSE d \in defs : \A o \in defs : Len(o.path) <= Len(d.path)).allow

KindStateMatch(r, e) ==
  /\ \E j \in 1..Len(r.kinds) : KindMatches(r.kinds[j], e.kind)
  /\ (r.hasstate => StateMatches(r.state, e.state))

Triggering(r, e, scope) ==
  /\ KindStateMatch(r, e)
  /\ \A j \in 1..Len(r.scope) : Allowed(scope, r.scope[j])

TriggeringRules(rules, e, scope) == {r \in SeqToSet(rules) : Triggering(r, e, scope)}
SuppressedNames(rules, e, scope) == UNION {SeqToSet(r.suppress) : r \in TriggeringRules(rules, e, scope)}

\* the names of the rules the event executes: each exactly once
Fires(rules, e, scope) ==
  {r.name : r \in {x \in TriggeringRules(rules, e, scope) : x.name \notin SuppressedNames(rules, e, scope)}}

MatchNames(rules, e) == {r.name : r \in {x \in SeqToSet(rules) : KindStateMatch(x, e)}}
=============================================================================
