------------------------------ MODULE Flow_Trace ------------------------------
(***************************************************************************)
(* Validation of recorded program runs against the reference control flow  *)
(* semantics (C04).  A record: the abstract program, the marker log the    *)
(* real interpreter produced and how the evaluation ended.  Clauses        *)
(* (result lists 10*i + k):                                                *)
(*  1 the marker log is the log of the reference                           *)
(*  2 the program ends the same way: normally, or with an error of the     *)
(*    same type                                                            *)
(*  3 no process-level fault                                               *)
(***************************************************************************)
EXTENDS ControlFlow, TLC, Json, IOUtils

Trace == ndJsonDeserialize(IOEnv.VERIF_TRACE)
VARIABLES i, bad
vars == <<i, bad>>
Init == i = 1 /\ bad = <<>>

Next ==
  /\ i <= Len(Trace) /\ i' = i + 1
  /\ LET e == Trace[i]
         r == Run(e.prog) IN
     bad' = bad \o (IF e.fault # "" THEN <<10 * i + 3>>
                    ELSE (IF e.log = r.log THEN <<>> ELSE <<10 * i + 1>>)
                      \o (IF (r.sig.s = "error" /\ e.res = "error" /\ e.ty = r.sig.ty) \/ (r.sig.s = "normal" /\ e.res = "normal")
                            \/ r.sig.s \notin {"error", "normal"}
                          THEN <<>> ELSE <<10 * i + 2>>))
Spec == Init /\ [][Next]_vars
Report == (i = Len(Trace) + 1) => PrintT(<<"TRACE-RESULT", Len(Trace), ToJson(bad)>>)
=============================================================================
