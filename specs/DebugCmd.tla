------------------------------ MODULE DebugCmd ------------------------------
(***************************************************************************)
(* interpreter/debug_cmd.go + debug.go (C16): the command interface of the *)
(* debugger as a machine over state classes.                               *)
(*                                                                         *)
(* State classes of a debugger (with one program "prog"):                  *)
(*   fresh     nothing evaluated yet                                       *)
(*   running   a thread evaluates (a long loop), nothing suspended         *)
(*   suspTop   a thread is suspended at a top level breakpoint             *)
(*   suspCall  a thread is suspended inside two nested function calls      *)
(*   suspErr   a thread is suspended on an error (break on error)          *)
(*   suspOdd   suspended with awkward values in scope (functions, Inf,     *)
(*             deep containers, a container which contains itself)         *)
(*   suspBusy  a thread is suspended inside a call while a second thread   *)
(*             keeps calling functions (asks for the debugger lock)        *)
(*   finished  the program ended                                           *)
(* A command line is a command word and 0..4 argument tokens; tokens stand *)
(* for classes of text (T below).  For every (state, line) the model gives *)
(* the class of the answer - "value" or "error" - exactly as the argument  *)
(* checks of the commands decide it, and whether the line may move the     *)
(* debugger to another state class.  What C16 demands is weaker and holds  *)
(* for every pair: an answer (no panic), JSON-encodable, and the debugger  *)
(* answers the next commands (no lock left behind).                        *)
(***************************************************************************)
EXTENDS Integers, Sequences, FiniteSets, TLC

States == {"fresh", "running", "suspTop", "suspCall", "suspErr", "suspOdd", "suspBusy", "finished"}
Suspended == {"suspTop", "suspCall", "suspErr", "suspOdd", "suspBusy"}

\* argument tokens and the text class they stand for
\*   tid     the id of the program's thread      tidx    a number which is no thread (7777)
\*   neg     -1                                  huge    a number beyond 64 bits
\*   float   1.5                                 word    abc
TidToks == {"tid", "tidx", "neg", "huge", "float", "word"}
\*   sl prog:2   slx nosuch:3   sln prog:-1   slh prog:<huge>   slw prog:x   sle prog:   cl :5   sll a:1:2   src prog
BreakToks == {"sl", "slx", "sln", "slh", "slw", "sle", "cl", "sll", "src", "srclong", "word", "num", "neg"}    \* num: 42 (no colon at all)
ContToks == {"resume", "stepin", "stepover", "stepout", "STEPIN", "word"}
\*   var a variable of the suspended thread (x)   novar zz   badname 1x   expr 1+2   badexpr ((
\*   rterr 1+"x" (parses, fails when evaluated)   listidx el.0 / listneg el.-1 (el is an empty list in state suspOdd)
NameToks == {"var", "novar", "badname"}
InjNameToks == NameToks \cup {"listidx", "listneg"}
ExprToks == {"expr", "badexpr", "var", "word", "rterr"}
BoolToks == {"true", "false", "word"}
AllToks == TidToks \cup BreakToks \cup ContToks \cup InjNameToks \cup ExprToks \cup BoolToks

Commands == {"breakonstart", "break", "rmbreak", "disablebreak", "cont", "describe", "status", "extract", "inject", "lockstate", "nosuchcmd", ""}

IsNumber(t) == t \in {"tid", "tidx", "neg"}                 \* strconv.ParseInt(.., 10, 0) accepts it
IsTarget(t) == t \in {"sl", "slx", "sln", "cl", "sll"}      \* <something>:<int>, more parts ignored
IsName(t) == t \in {"var", "novar", "word", "resume", "stepin", "stepover", "stepout", "STEPIN", "true", "false", "src", "srclong"}
ContWord(t) == t \in {"resume", "stepin", "stepover", "stepout", "STEPIN"}

\* the answer class of a line in a state
Expect(st, c, a) ==
  LET n == Len(a) IN
  CASE c = "" -> IF n = 0 THEN "value" ELSE "error"          \* the first token is then taken as the command word
    [] c = "nosuchcmd" -> "error"
    [] c \in {"breakonstart", "status", "lockstate"} -> "value"
    [] c \in {"break", "disablebreak"} -> IF n >= 1 /\ IsTarget(a[1]) THEN "value" ELSE "error"
    [] c = "rmbreak" -> IF n >= 1 THEN "value" ELSE "error"
    [] c = "cont" -> IF n = 2 /\ IsNumber(a[1]) /\ ContWord(a[2]) THEN "value" ELSE "error"
    [] c = "describe" -> IF n = 1 /\ IsNumber(a[1]) THEN "value" ELSE "error"
    [] c = "extract" -> IF n # 3 \/ ~IsNumber(a[1]) \/ ~IsName(a[2]) \/ ~IsName(a[3]) THEN "error"
                        ELSE IF a[1] = "tid" /\ st \in Suspended
                             THEN (IF a[2] = "var" THEN "value" ELSE "any")      \* other names may have been injected before
                             ELSE "error"
    [] c = "inject" -> IF n < 3 \/ ~IsNumber(a[1]) \/ a[1] # "tid" \/ st \notin Suspended THEN "error"
                       ELSE "any"                            \* depends on the expression text

\* may the line move the debugger to another state class?
Moves(st, c, a) == \/ st \in Suspended /\ c = "cont" /\ Len(a) = 2 /\ a[1] = "tid" /\ ContWord(a[2])
                   \/ st = "running" /\ c = "breakonstart" /\ (Len(a) = 0 \/ a[1] = "true")    \* the running thread suspends at its next step
                   \/ st = "running" /\ c = "break" /\ Len(a) >= 1 /\ a[1] = "sl"                \* a breakpoint on a line of the running loop

\* argument vectors worth trying per command: each position from the tokens that matter there plus strangers
ArgSets(c) ==
  CASE c \in {"break", "disablebreak", "rmbreak"} -> <<BreakToks, {"sl", "word"}, {"word"}>>
    [] c = "breakonstart" -> <<BoolToks, {"word"}>>
    [] c = "cont" -> <<TidToks, ContToks, {"word", "resume"}>>
    [] c = "describe" -> <<TidToks, {"word", "tid"}>>
    [] c \in {"status", "lockstate", "nosuchcmd", ""} -> <<{"word", "tid"}, {"word"}>>
    [] c = "extract" -> <<TidToks, NameToks, NameToks \cup {"word"}, {"word"}>>
    [] c = "inject" -> <<TidToks, InjNameToks, ExprToks, {"expr", "word"}>>

InVectors(c, a) == LET S == ArgSets(c) IN Len(a) <= Len(S) /\ \A k \in 1..Len(a) : a[k] \in S[k]
RECURSIVE Prod(_, _)
Prod(S, n) == IF n = 0 THEN {<<>>} ELSE {Append(p, x) : p \in Prod(S, n - 1), x \in S[n]}
Vectors(c) == LET S == ArgSets(c) IN UNION {Prod(S, n) : n \in 0..Len(S)}

Lines == UNION {{<<c, a>> : a \in Vectors(c)} : c \in Commands}
Cases == {[st |-> st, c |-> ln[1], a |-> ln[2], exp |-> Expect(st, ln[1], ln[2]), moves |-> Moves(st, ln[1], ln[2])] : st \in States, ln \in Lines}
=============================================================================
