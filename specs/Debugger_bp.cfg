SPECIFICATION Spec
CONSTANTS Variant = "code" MaxCmds = 5
CONSTANT Threads <- MCThreads1
CONSTANT Prog <- MCProg
CONSTANT Lines <- MCLines
INVARIANT TypeOK
INVARIANT BreakpointsSuspend
CHECK_DEADLOCK FALSE
