SPECIFICATION Spec
CONSTANTS
 MaxTok = 6
 Variant = "drained"
INVARIANT NoLeak
PROPERTY Terminates
CHECK_DEADLOCK FALSE
