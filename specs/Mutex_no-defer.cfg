SPECIFICATION FairSpec
CONSTANTS
 Threads <- MC_Threads
 Names <- MC_Names
 Script <- MC_Script
 Variant = "no-defer"
INVARIANTS Excl OwnerSound AllReleased NoStuck
PROPERTY Terminates
CHECK_DEADLOCK FALSE
