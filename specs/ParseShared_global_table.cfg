SPECIFICATION Spec
CONSTANTS
 Parsers <- MC_Parsers
 Script <- MC_Script
 Variant = "global"
INVARIANTS ExportBadTable TableFinal
CHECK_DEADLOCK FALSE
