--------------------------- MODULE EcalWait_Trace ---------------------------
(***************************************************************************)
(* Direction B for C02, ECAL level: a program of sinks (the rules of a     *)
(* cascade program: kind, failing or not, the events the sink adds) was    *)
(* evaluated by the interpreter and its top level called                   *)
(*     res := addEventAndWait("root", <kind>, {})                          *)
(* The record holds the program and what the call returned, flattened to   *)
(* (event name, sink, error type, error detail) plus the number of items   *)
(* of the list.  Every event is named by its path: a sink r which handles  *)
(* event n adds its a-th event under the name n \o ">" \o r \o "." \o a,   *)
(* and a failing sink raises the type "fail:" \o r with its own event name *)
(* as detail.  The expected report is the reference evaluation of the      *)
(* event tree (ErrsOf): exactly one entry per (event, sink) whose sink     *)
(* fails, attributed to that event and sink.                               *)
(*   clause 1: an entry is missing (an error was lost)                     *)
(*   clause 2: an entry for a pair (event, sink) which did not fail        *)
(*   clause 3: an entry carries the outcome of another invocation (type or *)
(*             detail do not belong to that event and sink)                *)
(*   clause 4: the entries are not grouped as one item per event with one  *)
(*             entry per failing sink (duplicates)                         *)
(***************************************************************************)
EXTENDS Naturals, Sequences, FiniteSets, TLC, Json, IOUtils, SequencesExt

Trace == ndJsonDeserialize(IOEnv.VERIF_TRACE)


\* the (event, sink) pairs which fail in the cascade of an event (name n, kind k) under the sinks rs
RECURSIVE ErrsOf(_, _, _)
ErrsOf(rs, n, k) ==
  UNION { (IF rs[j].fail THEN {<<n, rs[j].name>>} ELSE {})
          \cup UNION { ErrsOf(rs, n \o ">" \o rs[j].name \o "." \o ToString(a), rs[j].adds[a]) : a \in DOMAIN rs[j].adds }
        : j \in {x \in DOMAIN rs : rs[x].kind = k} }

Bad(i) ==
  LET rec == Trace[i]
      want == ErrsOf(rec.rules, "root", rec.root)
      got == {<<x.ev, x.rule>> : x \in Range(rec.report)}
      evs == {x.ev : x \in Range(rec.report)}
  IN (IF want \ got # {} THEN {10 * i + 1} ELSE {})
     \cup (IF got \ want # {} THEN {10 * i + 2} ELSE {})
     \cup (IF \E x \in Range(rec.report) : x.type # "fail:" \o x.rule \/ x.detail # x.ev THEN {10 * i + 3} ELSE {})
     \cup (IF Len(rec.report) # Cardinality(got) \/ rec.items # Cardinality(evs) THEN {10 * i + 4} ELSE {})

VARIABLES i, bad
tvars == <<i, bad>>
TInit == i = 1 /\ bad = {}
TNext == i <= Len(Trace) /\ i' = i + 1 /\ bad' = bad \cup Bad(i)
TSpec == TInit /\ [][TNext]_tvars
Report == (i = Len(Trace) + 1) => PrintT(<<"TRACE-RESULT", Len(Trace), ToJson(SetToSeq(bad))>>)
=============================================================================
