SPECIFICATION Spec
CONSTANTS Variant = "reclear" RecordHist = FALSE MaxCmds = 5
CONSTANT Threads <- MCThreads1
CONSTANT Prog <- MCProg
CONSTANT Lines <- MCLines
INVARIANT TypeOK
INVARIANT ContinueReleases
CHECK_DEADLOCK FALSE
