SPECIFICATION Spec
CONSTANTS
 N = 8
 Prios = {0,1,2,3,4,5,6,7}
 Variant = "fixed"
 FixedPrio <- FP_none
 RecordHist = TRUE
INVARIANTS HeapTopIsMin Export
CHECK_DEADLOCK FALSE
