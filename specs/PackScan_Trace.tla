--------------------------- MODULE PackScan_Trace ---------------------------
(***************************************************************************)
(* Direction B for C20: scans recorded from the real RunPackedBinary (one  *)
(* case after the other, separated by "start" records) are replayed        *)
(* through the actions of PackScan.                                        *)
(*   start   [L, zlen, d]            the packed file of the case           *)
(*   block   [pos, n]                hook pack.block: loop iteration       *)
(*   scanned [pos, found]            hook pack.scanned: behind the loop    *)
(*   end     [outcome, code_ok, files_ok]   what the harness observed:     *)
(*           "run" (exit callback reached), "miss" (function returned),    *)
(*           "panic", "error" (error handler called)                       *)
(* bad collects 10*l + c for record l:                                     *)
(*   c = 1  C20 is violated: the packed program did not run, its exit code *)
(*          is wrong or the recovered files differ from the project        *)
(*   c = 2  block record the model does not produce      (drift)           *)
(*   c = 3  scanned record differs from the model         (drift)           *)
(*   c = 4  outcome differs from the model's               (drift)           *)
(***************************************************************************)
EXTENDS PackScan, Json, IOUtils, SequencesExt

Trace == ndJsonDeserialize(IOEnv.VERIF_TRACE)

NoDesc(n, len) == [stride |-> 0, from |-> 0, singles |-> {}, partials |-> {}, zhash |-> {}]

EnvB1 == atoi(IOEnv.VERIF_B1)
EnvB2 == atoi(IOEnv.VERIF_B2)
EnvMLen == atoi(IOEnv.VERIF_MLEN)

VARIABLES l, lost, bad
tvars == <<vars, l, lost, bad>>

DescOf(r) == [stride |-> r.stride, from |-> r.from, singles |-> ToSet(r.singles), partials |-> ToSet(r.partials), zhash |-> ToSet(r.zhash)]

TInit ==
  /\ L = 0 /\ zlen = 0 /\ d = [stride |-> 0, from |-> 0, singles |-> {}, partials |-> {}, zhash |-> {}]
  /\ off = 0 /\ pos = 0 /\ clen = 0 /\ bufBase = -1 /\ pc = "done" /\ found = FALSE /\ outcome = "" /\ runAt = -1
  /\ l = 1 /\ lost = TRUE /\ bad = <<>>

Rec == Trace[l]
Lose(c) == lost' = TRUE /\ bad' = Append(bad, 10 * l + c) /\ UNCHANGED vars

TStart ==
  /\ Rec.ev = "start"
  /\ L' = Rec.L /\ zlen' = Rec.zlen /\ d' = DescOf(Rec.d)
  /\ off' = 0 /\ pos' = 0 /\ clen' = 0 /\ bufBase' = -1 /\ pc' = "scan" /\ found' = FALSE /\ outcome' = "" /\ runAt' = -1
  /\ lost' = FALSE /\ bad' = bad

TBlock ==
  /\ Rec.ev = "block"
  /\ IF lost THEN UNCHANGED <<vars, lost, bad>>
     ELSE IF pc = "scan" /\ pos = Rec.pos /\ Rec.n > 0 /\ PMin(B1, Size - off) = Rec.n
          THEN Step /\ UNCHANGED <<lost, bad>>
          ELSE Lose(2)

TScanned ==
  /\ Rec.ev = "scanned"
  /\ IF lost THEN UNCHANGED <<vars, lost, bad>>
     ELSE IF (pc = "scanned" \/ (pc = "scan" /\ Size - off = 0)) /\ pos = Rec.pos /\ found = Rec.found
          THEN FinishEffect /\ UNCHANGED <<lost, bad>>
          ELSE Lose(3)

TEnd ==
  /\ Rec.ev = "end"
  /\ LET v == IF Rec.outcome = "run" /\ Rec.code_ok /\ Rec.files_ok THEN <<>> ELSE <<10 * l + 1>>
         m == IF ~lost /\ ~(pc = "done" /\ outcome = Rec.outcome) THEN <<10 * l + 4>> ELSE <<>>
     IN bad' = bad \o v \o m
  /\ lost' = TRUE /\ UNCHANGED vars

TNext == l <= Len(Trace) /\ l' = l + 1 /\ (TStart \/ TBlock \/ TScanned \/ TEnd)
TSpec == TInit /\ [][TNext]_tvars

Report == (l = Len(Trace) + 1) => PrintT(<<"TRACE-RESULT", Len(Trace), ToJson(bad)>>)
=============================================================================
