CONSTANT MaxSegs = 3
CONSTANT MaxLong = 5
