SPECIFICATION Spec
CONSTANTS
 Parsers <- MC_Parsers
 Script <- MC_Script
 Variant = "local"
INVARIANTS ExportBad SameAsAlone TableRestored
CHECK_DEADLOCK FALSE
