----------------------------- MODULE SinkInvoke -----------------------------
(***************************************************************************)
(* interpreter/rt_sink.go: the action closure of a sink, invoked by        *)
(* several workers at the same time (C11).                                 *)
(*                                                                         *)
(* Each invocation i has an outcome Out[i] dictated by its event payload   *)
(* ("ok" or "fail").  The closure does: SetEvent (err := result of         *)
(* SetValue("event")), Eval (err := result of the sink body, wrapped),     *)
(* Return err.  The steps are separated by the observation points          *)
(* sink.action.eventSet and sink.action.return.                            *)
(* Variant "local":  err is a variable of the invocation.                  *)
(* Variant "shared": err is the variable of the function which DECLARED    *)
(*                   the sink, shared by all invocations of that sink      *)
(*                   (the code as found).                                  *)
(* Three more pieces of per-invocation state were added after seeded       *)
(* changes showed that each can be shared by mistake just as easily:       *)
(*   the binding of the name "event" (own scope / "shared-event": the      *)
(*   global scope), the value a sink returns ("shared-data": one variable  *)
(*   per sink declaration, never cleared) and the thread identity the body *)
(*   runs with ("shared-tid": the declaring thread's, so every invocation  *)
(*   owns every ECAL mutex).                                               *)
(***************************************************************************)
EXTENDS Integers, Sequences, FiniteSets, TLC, Json

CONSTANTS Inv,      \* invocations
          SinkOf,   \* [Inv -> sink name]
          Out,      \* [Inv -> "ok" | "fail"]
          Variant

VARIABLES pc,        \* [Inv -> "enter" | "eventSet" | "crit" | "return" | "done"]
          lerr,      \* [Inv -> err] invocation-local result variable
          serr,      \* [sink -> err] shared result variable
          reported,  \* [Inv -> err]
          lev, gev,  \* the event bound to the name "event": per invocation / in the global scope
          seen,      \* [Inv -> the event the body read]
          ldata, sdata, rdata,   \* value returned by the body: per invocation / per sink; what is reported with the outcome
          owner,     \* owner of the ECAL mutex the bodies use (an invocation, "decl" or "none")
          incrit,    \* invocations inside the critical section
          hist
vars == <<pc, lerr, serr, reported, lev, gev, seen, ldata, sdata, rdata, owner, incrit, hist>>

Sinks == {SinkOf[i] : i \in Inv}
Init == /\ pc = [i \in Inv |-> "enter"] /\ lerr = [i \in Inv |-> "nil"] /\ serr = [s \in Sinks |-> "nil"]
        /\ reported = [i \in Inv |-> "none"] /\ hist = <<>>
        /\ lev = [i \in Inv |-> "none"] /\ gev = "none" /\ seen = [i \in Inv |-> "none"]
        /\ ldata = [i \in Inv |-> "none"] /\ sdata = [s \in Sinks |-> "none"] /\ rdata = [i \in Inv |-> "none"]
        /\ owner = "none" /\ incrit = {}

Write(i, v) == IF Variant = "shared" THEN /\ serr' = [serr EXCEPT ![SinkOf[i]] = v] /\ UNCHANGED lerr
                                     ELSE /\ lerr' = [lerr EXCEPT ![i] = v] /\ UNCHANGED serr
Read(i) == IF Variant = "shared" THEN serr[SinkOf[i]] ELSE lerr[i]

Tid(i) == IF Variant = "shared-tid" THEN "decl" ELSE i
\* sink.action.enter -> sink.action.eventSet : err = sinkVS.SetValue("event", ...)
SetEvent(i) == /\ pc[i] = "enter" /\ pc' = [pc EXCEPT ![i] = "eventSet"] /\ Write(i, "nil")
               /\ IF Variant = "shared-event" THEN gev' = i /\ UNCHANGED lev ELSE lev' = [lev EXCEPT ![i] = i] /\ UNCHANGED gev
               /\ hist' = Append(hist, <<i, "SetEvent">>) /\ UNCHANGED <<reported, seen, ldata, sdata, rdata, owner, incrit>>
\* the body enters its mutex block (re-entrant for the owner's thread identity) ...
Enter(i) == /\ pc[i] = "eventSet" /\ (owner = "none" \/ owner = Tid(i))
            /\ pc' = [pc EXCEPT ![i] = "crit"] /\ owner' = Tid(i) /\ incrit' = incrit \cup {i}
            /\ seen' = [seen EXCEPT ![i] = IF Variant = "shared-event" THEN gev ELSE lev[i]]
            /\ hist' = Append(hist, <<i, "Enter">>) /\ UNCHANGED <<lerr, serr, reported, lev, gev, ldata, sdata, rdata>>
\* ... and leaves it; sink.action.eventSet -> sink.action.return : if err == nil { _, err = body.Eval(); wrap }
Eval(i) == /\ pc[i] = "crit" /\ pc' = [pc EXCEPT ![i] = "return"]
           /\ incrit' = incrit \ {i} /\ owner' = IF incrit \ {i} = {} THEN "none" ELSE owner
           /\ IF Read(i) = "nil" THEN Write(i, IF Out[i] = "fail" THEN "fail" ELSE "nil") ELSE UNCHANGED <<lerr, serr>>
           \* an invocation which does not fail returns its own value; a failing one returns nothing
           /\ IF Out[i] = "ok"
              THEN IF Variant = "shared-data" THEN sdata' = [sdata EXCEPT ![SinkOf[i]] = i] /\ UNCHANGED ldata
                                              ELSE ldata' = [ldata EXCEPT ![i] = i] /\ UNCHANGED sdata
              ELSE UNCHANGED <<ldata, sdata>>
           /\ hist' = Append(hist, <<i, "Eval">>) /\ UNCHANGED <<reported, lev, gev, seen, rdata>>
\* sink.action.return -> : return err (with the data the body produced)
Return(i) == /\ pc[i] = "return" /\ pc' = [pc EXCEPT ![i] = "done"]
             /\ reported' = [reported EXCEPT ![i] = Read(i)]
             /\ rdata' = [rdata EXCEPT ![i] = IF Variant = "shared-data" THEN sdata[SinkOf[i]] ELSE ldata[i]]
             /\ hist' = Append(hist, <<i, "Return">>) /\ UNCHANGED <<lerr, serr, lev, gev, seen, ldata, sdata, owner, incrit>>

Next == \E i \in Inv : SetEvent(i) \/ Enter(i) \/ Eval(i) \/ Return(i)
Spec == Init /\ [][Next]_vars

\* C11: the outcome recorded for an invocation is what that invocation's code produced
OwnOutcome == \A i \in Inv : pc[i] = "done" => reported[i] = (IF Out[i] = "fail" THEN "fail" ELSE "nil")
\* every invocation sees its own event
OwnEvent == \A i \in Inv : seen[i] \in {"none", i}
\* the data recorded with an outcome is what that invocation produced (nothing for a failing one)
OwnData == \A i \in Inv : pc[i] = "done" => rdata[i] = (IF Out[i] = "ok" THEN i ELSE "none")
\* the interpreter's bookkeeping keeps overlapping invocations apart: one at a time inside a mutex block
OneInCrit == Cardinality(incrit) <= 1
ExportBad == OwnOutcome \/ PrintT(<<"BEHAVIOUR", ToJson(hist)>>)
=============================================================================
