----------------------------- MODULE SinkInvoke -----------------------------
(***************************************************************************)
(* interpreter/rt_sink.go: the action closure of a sink, invoked by        *)
(* several workers at the same time (C11).                                 *)
(*                                                                         *)
(* Each invocation i has an outcome Out[i] dictated by its event payload   *)
(* ("ok" or "fail").  The closure does: SetEvent (err := result of         *)
(* SetValue("event")), Eval (err := result of the sink body, wrapped),     *)
(* Return err.  The steps are separated by the observation points          *)
(* sink.action.eventSet and sink.action.return.                            *)
(* Variant "local":  err is a variable of the invocation.                  *)
(* Variant "shared": err is the variable of the function which DECLARED    *)
(*                   the sink, shared by all invocations of that sink      *)
(*                   (the code as found).                                  *)
(***************************************************************************)
EXTENDS Integers, Sequences, FiniteSets, TLC, Json

CONSTANTS Inv,      \* invocations
          SinkOf,   \* [Inv -> sink name]
          Out,      \* [Inv -> "ok" | "fail"]
          Variant

VARIABLES pc,        \* [Inv -> "enter" | "eventSet" | "return" | "done"]
          lerr,      \* [Inv -> err] invocation-local result variable
          serr,      \* [sink -> err] shared result variable
          reported,  \* [Inv -> err]
          hist
vars == <<pc, lerr, serr, reported, hist>>

Sinks == {SinkOf[i] : i \in Inv}
Init == /\ pc = [i \in Inv |-> "enter"] /\ lerr = [i \in Inv |-> "nil"] /\ serr = [s \in Sinks |-> "nil"]
        /\ reported = [i \in Inv |-> "none"] /\ hist = <<>>

Write(i, v) == IF Variant = "shared" THEN /\ serr' = [serr EXCEPT ![SinkOf[i]] = v] /\ UNCHANGED lerr
                                     ELSE /\ lerr' = [lerr EXCEPT ![i] = v] /\ UNCHANGED serr
Read(i) == IF Variant = "shared" THEN serr[SinkOf[i]] ELSE lerr[i]

\* sink.action.enter -> sink.action.eventSet : err = sinkVS.SetValue("event", ...)
SetEvent(i) == /\ pc[i] = "enter" /\ pc' = [pc EXCEPT ![i] = "eventSet"] /\ Write(i, "nil")
               /\ hist' = Append(hist, <<i, "SetEvent">>) /\ UNCHANGED reported
\* sink.action.eventSet -> sink.action.return : if err == nil { _, err = body.Eval(); wrap }
Eval(i) == /\ pc[i] = "eventSet" /\ pc' = [pc EXCEPT ![i] = "return"]
           /\ IF Read(i) = "nil" THEN Write(i, IF Out[i] = "fail" THEN "fail" ELSE "nil") ELSE UNCHANGED <<lerr, serr>>
           /\ hist' = Append(hist, <<i, "Eval">>) /\ UNCHANGED reported
\* sink.action.return -> : return err
Return(i) == /\ pc[i] = "return" /\ pc' = [pc EXCEPT ![i] = "done"]
             /\ reported' = [reported EXCEPT ![i] = Read(i)]
             /\ hist' = Append(hist, <<i, "Return">>) /\ UNCHANGED <<lerr, serr>>

Next == \E i \in Inv : SetEvent(i) \/ Eval(i) \/ Return(i)
Spec == Init /\ [][Next]_vars

\* C11: the outcome recorded for an invocation is what that invocation's code produced
OwnOutcome == \A i \in Inv : pc[i] = "done" => reported[i] = (IF Out[i] = "fail" THEN "fail" ELSE "nil")
ExportBad == OwnOutcome \/ PrintT(<<"BEHAVIOUR", ToJson(hist)>>)
=============================================================================
