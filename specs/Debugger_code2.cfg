SPECIFICATION Spec
CONSTANTS Variant = "code" RecordHist = FALSE MaxCmds = 4
CONSTANT Threads <- MCThreads
CONSTANT Prog <- MCProg
CONSTANT Lines <- MCLines
INVARIANT TypeOK
INVARIANT NoLostWakeup
INVARIANT ContinueReleases
INVARIANT ReportedIsSuspended
INVARIANT BreakpointsSuspend
PROPERTY StopReleasesAll
CHECK_DEADLOCK FALSE
