---------------------------- MODULE MutexP_Trace ----------------------------
(***************************************************************************)
(* Property-level validation of recorded executions of ECAL mutex blocks   *)
(* (C12).  Events, recorded by Go functions called from inside the blocks: *)
(*   enter(t, n)    thread t is inside a block named n (first statement)   *)
(*   leaving(t, n)  last statement of the block before any way out         *)
(*   final(n, cnt, exp)  value of the counter guarded by n / number of     *)
(*                  increments executed                                    *)
(*   end(hung)      all threads ended or the run is permanently stuck      *)
(* Allowed: enter(t, n) only if no OTHER thread is inside n (re-entrancy   *)
(* for t itself); no lost update; nobody blocked for ever.                 *)
(***************************************************************************)
EXTENDS Integers, Sequences, FiniteSets, TLC, Json, IOUtils

Trace == ndJsonDeserialize(IOEnv.VERIF_TRACE)
VARIABLES i, occ, skip, bad     \* occ: [name -> Seq of thread ids inside]
vars == <<i, occ, skip, bad>>
Init == i = 1 /\ occ = <<>> /\ skip = FALSE /\ bad = <<>>

Occ(n) == IF n \in DOMAIN occ THEN occ[n] ELSE <<>>
With(f, c, v) == [x \in DOMAIN f \cup {c} |-> IF x = c THEN v ELSE f[x]]
RECURSIVE RemoveLast(_, _)
RemoveLast(s, t) == IF s = <<>> THEN <<>>
                    ELSE IF s[Len(s)] = t THEN SubSeq(s, 1, Len(s) - 1)
                    ELSE Append(RemoveLast(SubSeq(s, 1, Len(s) - 1), t), s[Len(s)])

Ok(e) ==
  CASE e.ev = "enter"   -> \A j \in 1..Len(Occ(e.n)) : Occ(e.n)[j] = e.t
    [] e.ev = "leaving" -> \E j \in 1..Len(Occ(e.n)) : Occ(e.n)[j] = e.t
    [] e.ev = "final"   -> e.cnt = e.exp
    [] e.ev = "end"     -> ~ e.hung /\ \A n \in DOMAIN occ : occ[n] = <<>>
    [] OTHER -> FALSE
Apply(e) ==
  occ' = CASE e.ev = "enter"   -> With(occ, e.n, Append(Occ(e.n), e.t))
           [] e.ev = "leaving" -> With(occ, e.n, RemoveLast(Occ(e.n), e.t))
           [] OTHER -> occ

Next == /\ i <= Len(Trace) /\ i' = i + 1
        /\ LET e == Trace[i] IN
           IF e.ev = "reset" THEN occ' = <<>> /\ skip' = FALSE /\ UNCHANGED bad
           ELSE IF skip THEN UNCHANGED <<occ, skip, bad>>
           ELSE IF Ok(e) THEN Apply(e) /\ UNCHANGED <<skip, bad>>
           ELSE bad' = Append(bad, i) /\ skip' = TRUE /\ UNCHANGED occ
Spec == Init /\ [][Next]_vars
Report == (i = Len(Trace) + 1) => PrintT(<<"TRACE-RESULT", Len(Trace), ToJson(bad)>>)
=============================================================================
