------------------------------ MODULE Parse_Trace ------------------------------
(***************************************************************************)
(* Property-level validation of recorded parses (C07).  One record per     *)
(* input: what parser.Parse returned and what was left behind.             *)
(*   hastree / haserr     exactly one of them                              *)
(*   errpos               the error carries a position (line >= 1)         *)
(*   tree                 [n |-> node kind, c |-> children]; a missing     *)
(*                        node is [n |-> "<nil>", c |-> <<>>]              *)
(*   leaks                goroutines of the lexer still blocked in a send  *)
(*                        after the call returned                          *)
(*   walk                 "ok" | which of Validate / PrettyPrint panicked  *)
(* WF is the shape table: number and kinds of children per node kind.      *)
(* The result lists 10*i + k for record i violating clause k:              *)
(*  1 error xor tree   2 positioned error   3 well-formed tree             *)
(*  4 nothing left running   5 tree can be walked                          *)
(***************************************************************************)
EXTENDS Integers, Sequences, FiniteSets, TLC, Json, IOUtils

Trace == ndJsonDeserialize(IOEnv.VERIF_TRACE)
VARIABLES i, bad
vars == <<i, bad>>
Init == i = 1 /\ bad = <<>>

Leaf == {"number", "string", "true", "false", "null", "break", "continue"}
Binary == {"times", "div", "modint", "divint", "and", "or", "like", "in", "hasprefix", "hassuffix", "notin",
           ">=", "<=", "!=", "==", ">", "<", ":=", "kvp", "preset", "loop", "import", "mutex"}
OneChild == {"not", "guard", "let", "kindmatch", "scopematch", "statematch", "priority", "suppresses",
             "otherwise", "finally", "compaccess"}
Kinds(t) == {t.c[j].n : j \in 1..Len(t.c)}

ShapeOk(t) ==
  LET k == Len(t.c) IN
  CASE t.n \in Leaf -> k = 0
    [] t.n \in Binary -> k = 2
    [] t.n \in OneChild -> k = 1
    [] t.n \in {"plus", "minus"} -> k \in {1, 2}
    [] t.n = "identifier" -> Kinds(t) \subseteq {"identifier", "funccall", "compaccess"}
    [] t.n = "if" -> k >= 2 /\ k % 2 = 0 /\ \A j \in 1..k : t.c[j].n = (IF j % 2 = 1 THEN "guard" ELSE "statements")
    [] t.n = "function" -> k \in {2, 3} /\ t.c[k].n = "statements" /\ t.c[k - 1].n = "params"
    [] t.n = "return" -> k \in {0, 1}
    [] t.n = "try" -> k >= 1 /\ t.c[1].n = "statements" /\ \A j \in 2..k : t.c[j].n \in {"except", "otherwise", "finally"}
    [] t.n = "except" -> k >= 1 /\ t.c[k].n = "statements"
    [] t.n = "as" -> k = 1
    [] t.n = "sink" -> k >= 2 /\ t.c[1].n = "identifier" /\ t.c[k].n = "statements"
    [] t.n = "map" -> Kinds(t) \subseteq {"kvp"}
    [] t.n \in {"list", "params", "funccall", "statements"} -> TRUE
    [] OTHER -> FALSE             \* "<nil>", "EOF", "" or an unknown kind

RECURSIVE WF(_)
WF(t) == ShapeOk(t) /\ \A j \in 1..Len(t.c) : WF(t.c[j])

Next ==
  /\ i <= Len(Trace) /\ i' = i + 1
  /\ LET e == Trace[i] IN
     bad' = bad \o (IF e.hastree # e.haserr THEN <<>> ELSE <<10 * i + 1>>)
                \o (IF e.haserr => e.errpos THEN <<>> ELSE <<10 * i + 2>>)
                \o (IF e.hastree => WF(e.tree) THEN <<>> ELSE <<10 * i + 3>>)
                \o (IF e.leaks = 0 THEN <<>> ELSE <<10 * i + 4>>)
                \o (IF e.walk = "ok" THEN <<>> ELSE <<10 * i + 5>>)
Spec == Init /\ [][Next]_vars
Report == (i = Len(Trace) + 1) => PrintT(<<"TRACE-RESULT", Len(Trace), ToJson(bad)>>)
=============================================================================
