SPECIFICATION Spec
CONSTANTS
 N = 5
 Prios = {0,1,2,3,4,5}
 Variant = "fixed"
 FixedPrio <- FP_none
 RecordHist = FALSE
INVARIANTS HeapTopIsMin PostedOnce PostedMeansAllDone AllDoneMeansPosted CounterIsUnfinished
VIEW view
CHECK_DEADLOCK FALSE
