----------------------------- MODULE MCPackScan -----------------------------
(* Model-checking instance of PackScan: the real geometry, all filler      *)
(* lengths over more than two periods of block + extension, a family of    *)
(* contents anchored at the start of the file and at the marker.           *)
EXTENDS PackScan, IOUtils

\* the geometry of the real scanner is handed over by the harness (tool.VerifPackGeometry)
EnvB1 == atoi(IOEnv.VERIF_B1)
EnvB2 == atoi(IOEnv.VERIF_B2)
EnvMLen == atoi(IOEnv.VERIF_MLEN)
MCLengths == 0..(2 * (EnvB1 + EnvB2) + 152)
MCZLens == {130, EnvB1 + 104}
None == [stride |-> 0, from |-> 0, singles |-> {}, partials |-> {}, zhash |-> {}]
MCDescs == {"plain", "dense", "first", "last1", "back5", "back17", "back28", "back29", "back45", "back4097", "back4125",
            "tailpartial", "nearpartial", "midpartial", "block2on", "late", "zhash", "firstzhash"}
MCDesc(n, len) ==
  CASE n = "plain"       -> None
    [] n = "dense"       -> [None EXCEPT !.stride = 61]
    [] n = "first"       -> [None EXCEPT !.singles = {0}]
    [] n = "last1"       -> [None EXCEPT !.singles = {len - 1}]
    [] n = "back5"       -> [None EXCEPT !.singles = {len - 5}]
    [] n = "back17"      -> [None EXCEPT !.singles = {len - 17}]
    [] n = "back28"      -> [None EXCEPT !.singles = {len - 28}]
    [] n = "back29"      -> [None EXCEPT !.singles = {len - 29}]
    [] n = "back45"      -> [None EXCEPT !.singles = {len - 45}]
    [] n = "back4097"    -> [None EXCEPT !.singles = {len - EnvB1 - 1}]
    [] n = "back4125"    -> [None EXCEPT !.singles = {len - EnvB1 - EnvB2 - 1}]
    [] n = "tailpartial" -> [None EXCEPT !.partials = {<<len - 17, 16>>}]
    [] n = "nearpartial" -> [None EXCEPT !.partials = {<<len - 30, 12>>}]
    [] n = "midpartial"  -> [None EXCEPT !.partials = {<<len - EnvB1 - 4, 16>>, <<3, 5>>}]
    [] n = "block2on"    -> [None EXCEPT !.stride = 509, !.from = EnvB1]
    [] n = "late"        -> [None EXCEPT !.stride = 61, !.from = EnvB1 + EnvB2]
    [] n = "zhash"       -> [None EXCEPT !.zhash = {5, 300}]
    [] n = "firstzhash"  -> [None EXCEPT !.singles = {0}, !.zhash = {0}]
=============================================================================
