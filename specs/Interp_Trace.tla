------------------------------ MODULE Interp_Trace ------------------------------
(***************************************************************************)
(* Validation of recorded evaluations of string literals (C14).  A record: *)
(* the literal's value (bytes), whether it was written as a raw literal,   *)
(* the expression table, what the real evaluation returned (isstr, out),   *)
(* how often the side-effect function ran, and fault / hang.  Clauses      *)
(* (result lists 10*i + k):                                                *)
(*  1 the result is the string the one-pass reference produces             *)
(*  2 every expression written in the literal ran exactly once, nothing    *)
(*    that only occurs in substituted data ran                             *)
(*  3 a string, in bounded time, without a crash                           *)
(***************************************************************************)
EXTENDS Interp, TLC, Json, IOUtils

Trace == ndJsonDeserialize(IOEnv.VERIF_TRACE)
VARIABLES i, bad
vars == <<i, bad>>
Init == i = 1 /\ bad = <<>>

Next ==
  /\ i <= Len(Trace) /\ i' = i + 1
  /\ LET e == Trace[i]
         r == Interp(e.lit, e.raw, e.codes) IN
     bad' = bad \o (IF e.fault # "" \/ ~ e.isstr THEN <<10 * i + 3>>
                    ELSE (IF r.exact => e.out = r.out THEN <<>> ELSE <<10 * i + 1>>)
                      \o (IF r.exact => e.ticks = r.ticks THEN <<>> ELSE <<10 * i + 2>>))
Spec == Init /\ [][Next]_vars
Report == (i = Len(Trace) + 1) => PrintT(<<"TRACE-RESULT", Len(Trace), ToJson(bad)>>)
=============================================================================
