----------------------------- MODULE PackCases -----------------------------
(* The case universe of C20 written by TLC (direction A): filler length x  *)
(* content descriptor, exactly the initial states MCPackScan explores.     *)
(* Tier "quick": every length for three contents, and every content for    *)
(* the lengths within 40 bytes of a multiple of the block size, of block + *)
(* extension, and of their sums; tier "thorough": everything.              *)
EXTENDS MCPackScan, Json, IOUtils, SequencesExt

Near(len) == \E m \in {0, B1, B1 + B2, 2 * B1, 2 * B1 + B2, 2 * (B1 + B2)} : len >= m - 40 /\ len <= m + 40
Pairs == IF IOEnv.VERIF_TIER = "thorough" THEN MCLengths \X MCDescs
         ELSE (MCLengths \X {"plain", "dense", "last1"}) \cup ({len \in MCLengths : Near(len)} \X MCDescs)
AsSeq(S) == SetToSeq(S)
Rec(p) == LET ds == MCDesc(p[2], p[1]) IN
          [L |-> p[1], n |-> p[2],
           d |-> [stride |-> ds.stride, from |-> ds.from, singles |-> AsSeq(ds.singles), partials |-> AsSeq(ds.partials), zhash |-> <<>>]]
NoInit == FALSE /\ Init
NoNext == FALSE /\ Next
ASSUME PrintT(<<"CASES", Cardinality(Pairs)>>)
PairSeq == SetToSeq(Pairs)
ASSUME ndJsonSerialize(IOEnv.VERIF_OUT, [k \in 1..Len(PairSeq) |-> Rec(PairSeq[k])])
=============================================================================
