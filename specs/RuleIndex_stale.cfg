SPECIFICATION Spec
CONSTANTS
 RuleSets <- MC_RuleSets
 Events <- MC_Events
 Scopes <- MC_Scopes
 MaxHist = 2
 LeafCap = 2
 Variant = "stale-cache"
 Extra <- MC_Extra
 MaxAdds = 1
 MaxRules = 3
INVARIANTS FiredExactly NeverSkippedIfFires Terminates PreCheckOverApproximates
CHECK_DEADLOCK FALSE
