SPECIFICATION Spec
CONSTANTS B1 <- EnvB1 B2 <- EnvB2 MLen <- EnvMLen Variant = "found"
CONSTANT Lengths <- MCLengths
CONSTANT Descs <- MCDescs
CONSTANT Desc <- MCDesc
CONSTANT ZLens <- MCZLens
INVARIANT TypeOK
INVARIANT AlwaysRuns
CHECK_DEADLOCK FALSE
