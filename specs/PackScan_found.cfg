SPECIFICATION Spec
CONSTANTS B1 = 4096 B2 = 28 MLen = 17 Variant = "found"
CONSTANT Lengths <- MCLengths
CONSTANT Descs <- MCDescs
CONSTANT Desc <- MCDesc
CONSTANT ZLens <- MCZLens
INVARIANT TypeOK
INVARIANT AlwaysRuns
CHECK_DEADLOCK FALSE
