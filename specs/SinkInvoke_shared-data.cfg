SPECIFICATION Spec
CONSTANTS
 Inv <- MC_Inv
 SinkOf <- MC_SinkOf
 Out <- MC_Out
 Variant = "shared-data"
INVARIANTS OwnData
CHECK_DEADLOCK FALSE
