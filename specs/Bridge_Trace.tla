---------------------------- MODULE Bridge_Trace ----------------------------
(***************************************************************************)
(* Direction B for C19: calls made through the real ECALFunctionAdapter    *)
(* (directly and from ECAL programs) on synthetic Go functions of every    *)
(* signature of the universe are judged by the reference of Bridge.tla.    *)
(* Record:                                                                 *)
(*   sig      [params, variadic, results, err, panics]                     *)
(*   args     names of the argument values                                 *)
(*   outcome  "results" | "error" | "fault"                                *)
(*   invoked  the Go function ran                                          *)
(*   recv     what arrived for numeric arguments: [i, exact, v, same]      *)
(*            (exact: the harness could express it as twice-the-value      *)
(*            integer; same: converted back it equals the argument)        *)
(*   shape    "single" | "list" | "none";  ret: [t, v] per returned value  *)
(*   outs     [v] twice the value of each numeric Go result                *)
(*   errtext  the error has a text                                         *)
(* bad collects 10*i + c:                                                  *)
(*   1 fault: a panic left Run / the interpreter, or no return             *)
(*   2 the function had to be invoked and was not, or must not and was     *)
(*   3 a numeric argument arrived with a value other than its conversion   *)
(*   4 outcome class differs (results although the function panicked or    *)
(*     returned an error, error although it returned results, ...)         *)
(*   5 returned values: wrong count / shape, a Go number not delivered as  *)
(*     ECAL number or with another value; or an error without text         *)
(***************************************************************************)
EXTENDS Bridge, TLC, Json, IOUtils

Trace == ndJsonDeserialize(IOEnv.VERIF_TRACE)
VARIABLES i, bad
tvars == <<i, bad>>

WellFormed(r) ==
  /\ \A k \in 1..Len(r.sig.params) : r.sig.params[k] \in ParamKinds
  /\ \A k \in 1..Len(r.sig.results) : r.sig.results[k] \in ResultKinds
  /\ \A k \in 1..Len(r.args) : r.args[k] \in ArgVals

RecvOK(r) ==
  \A k \in 1..Len(r.recv) :
    LET x == r.recv[k]
        pk == IF x.i <= Len(r.sig.params) THEN r.sig.params[x.i] ELSE r.sig.params[Len(r.sig.params)]
        e == Received(pk, r.args[x.i])
    IN /\ e.exact => (x.exact /\ x.v = e.v)
       /\ (r.args[x.i] \in HugeNums /\ HugeFits(pk, r.args[x.i])) => x.same

RetOK(r) ==
  LET n == Len(r.sig.results) IN
  /\ Len(r.ret) = n
  /\ r.shape = (IF n = 1 THEN "single" ELSE "list")
  /\ \A k \in 1..n :
       LET rk == r.sig.results[k] IN
       IF rk \in NumKinds \/ rk \in NamedNumKinds \/ rk = "iface" THEN r.ret[k].t = "number" /\ r.ret[k].v = r.outs[k]
       ELSE IF rk = "string" THEN r.ret[k].t = "string"
       ELSE IF rk = "bool" THEN r.ret[k].t = "bool"
       ELSE IF rk = "list" THEN r.ret[k].t = "list"
       ELSE r.ret[k].t = "null"                       \* an error value which is not the trailing result: nil here

Codes(r, n) ==
  LET inv == Invoked(r.sig, r.args) IN
  IF r.outcome = "fault" THEN <<10 * n + 1>>
  ELSE (IF (inv = "yes" /\ ~r.invoked) \/ (inv = "no" /\ r.invoked) THEN <<10 * n + 2>> ELSE <<>>)
    \o (IF r.invoked /\ ~RecvOK(r) THEN <<10 * n + 3>> ELSE <<>>)
    \o (IF r.outcome # (IF r.invoked THEN OutcomeInvoked(r.sig) ELSE "error") THEN <<10 * n + 4>> ELSE <<>>)
    \o (IF (r.outcome = "results" /\ r.invoked /\ ~RetOK(r)) \/ (r.outcome = "error" /\ ~r.errtext) THEN <<10 * n + 5>> ELSE <<>>)

TInit == i = 1 /\ bad = <<>>
TNext == i <= Len(Trace) /\ i' = i + 1 /\ Assert(WellFormed(Trace[i]), <<"record outside the universe", i>>) /\ bad' = bad \o Codes(Trace[i], i)
TSpec == TInit /\ [][TNext]_tvars
Report == (i = Len(Trace) + 1) => PrintT(<<"TRACE-RESULT", Len(Trace), ToJson(bad)>>)
=============================================================================
