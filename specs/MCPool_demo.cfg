SPECIFICATION Spec
CONSTANTS
 MaxW = 2
 Tasks <- MC_Tasks
 Children <- MC_Children
 Clients <- MC_Clients
 Script <- MC_Script
 Guarded = TRUE
 RecordHist = FALSE
INVARIANTS TypeOK AtMostOnce NoDrop NoDupInQueue NoLostTask WaitAllOK JoinAllOK
CHECK_DEADLOCK FALSE
