SPECIFICATION Spec
CONSTANTS
 MaxW = 2
 Tasks <- MC_Tasks
 Children <- MC_Children
 Needs <- MC_Needs
 Clients <- MC_Clients
 Script <- MC_Script
 Variant = "code"
 RecordHist = FALSE
INVARIANTS TypeOK AtMostOnce NoDrop NoDupInQueue NoLostTask WaitAllOK JoinAllOK
CHECK_DEADLOCK FALSE
