------------------------------- MODULE Bridge -------------------------------
(***************************************************************************)
(* stdlib/adapter.go ECALFunctionAdapter.Run (C19): the bridge from an     *)
(* ECAL call to a Go function of an arbitrary signature.                   *)
(*                                                                         *)
(* A call is (signature, argument vector).  A signature is a sequence of   *)
(* parameter kinds, possibly variadic in its last parameter (the shape of  *)
(* every plugin function), a sequence of result kinds, a trailing error    *)
(* result (absent, nil, non-nil) and whether the Go function panics.       *)
(* Arguments are ECAL values; numbers are named, Val gives twice their     *)
(* value (so halves are integers), numbers outside TLC's integers are      *)
(* "huge" and only their passing through floats is fixed.                  *)
(*                                                                         *)
(* The reference fixes, for a call:                                        *)
(*   Invoked      must the Go function be invoked: the number of arguments *)
(*                fits and every argument is of the parameter's kind, any  *)
(*                number being of every numeric kind ("yes" / "no" /       *)
(*                "either" where the statement leaves it open: interface   *)
(*                and variadic parameters, NULL)                           *)
(*   Received     what arrives for a numeric argument: the number          *)
(*                converted to the parameter's Go type - truncated towards *)
(*                zero for integer kinds when it is in range (outside the  *)
(*                range Go leaves the value open), unchanged for floats    *)
(*   Returned     the ECAL value of the results: every Go integer and      *)
(*                float as ECAL number, one result as itself, several (or  *)
(*                none) as list; a non-nil trailing error as ECAL error    *)
(* Outcomes other than results or an error with a text (a panic leaving    *)
(* Run, no return) are faults whatever the call.                           *)
(***************************************************************************)
EXTENDS Integers, Sequences, FiniteSets

IntKinds  == {"int", "int8", "int16", "int32", "int64"}
UintKinds == {"uint", "uint8", "uint16", "uint32", "uint64", "uintptr"}
FloatKinds == {"float32", "float64"}
NumKinds == IntKinds \cup UintKinds \cup FloatKinds
ParamKinds == NumKinds \cup {"string", "bool", "iface", "list", "map"}
\* nint / nfloat: results of defined numeric types (time.Duration, a float type of the application)
\* nhuge: an unsigned result beyond the signed 64 bit range (its faithful arrival is recorded as a token)
NamedNumKinds == {"nint", "nfloat", "nhuge"}
ResultKinds == NumKinds \cup NamedNumKinds \cup {"string", "bool", "iface", "list", "error"}

\* twice the value of the small numbers
Val == [n0 |-> 0, n1 |-> 2, nm1 |-> -2, n2h |-> 5, nm2h |-> -5, n127 |-> 254, n128 |-> 256, n255 |-> 510, n256 |-> 512,
        nm129 |-> -258, n65535 |-> 131070, n65536 |-> 131072, n1e6 |-> 2000000]
SmallNums == DOMAIN Val
HugeNums == {"n3e9", "nm3e9", "n1e19", "nm1e19", "nan", "inf"}
Nums == SmallNums \cup HugeNums
ArgVals == Nums \cup {"null", "true", "str", "list", "map", "func"}

ArgKind(a) == IF a \in Nums THEN "number" ELSE a

\* twice the bounds of the integer kinds TLC's integers can hold; the others contain every small number (unsigned: >= 0)
Lo(k) == CASE k = "int8" -> -256 [] k = "int16" -> -65536 [] k \in UintKinds -> 0 [] OTHER -> -2147483647
Hi(k) == CASE k = "int8" -> 254 [] k = "int16" -> 65534 [] k = "uint8" -> 510 [] k = "uint16" -> 131070 [] OTHER -> 2147483647

Trunc2(v) == IF v >= 0 THEN 2 * (v \div 2) ELSE -(2 * ((-v) \div 2))

\* what must arrive for the number a at a parameter of kind k: [exact |-> TRUE, v |-> twice the value] or exact = FALSE
Received(k, a) ==
  IF a \in HugeNums THEN [exact |-> FALSE, v |-> 0]
  ELSE IF k \in FloatKinds \/ k \in {"iface", "list"} THEN [exact |-> TRUE, v |-> Val[a]]
  ELSE LET t == Trunc2(Val[a]) IN
       IF t >= Lo(k) /\ t <= Hi(k) THEN [exact |-> TRUE, v |-> t] ELSE [exact |-> FALSE, v |-> 0]

\* huge numbers which the parameter kind can hold: they must arrive unchanged (the harness compares the received value,
\* converted back, with the argument)
HugeFits(k, a) ==
  \/ k \in FloatKinds /\ a \in {"n3e9", "nm3e9", "n1e19", "nm1e19"} /\ k = "float64"
  \/ a = "n3e9" /\ k \in {"int", "int64", "uint", "uint32", "uint64", "uintptr"}
  \/ a = "nm3e9" /\ k \in {"int", "int64"}
  \/ a = "n1e19" /\ k \in {"uint", "uint64", "uintptr"}

\* does the argument fit the parameter: "yes" / "no" / "either"
YN(b) == IF b THEN "yes" ELSE "no"
Fits(k, a) ==
  IF k \in NumKinds THEN YN(ArgKind(a) = "number")
  ELSE IF k = "string" THEN YN(a = "str")
  ELSE IF k = "bool" THEN YN(a = "true")
  ELSE IF k = "map" THEN YN(a = "map")
  ELSE "either"                              \* interface and []interface{} parameters: left open by the statement

\* sig: [params, variadic, results, err ("none" | "nil" | "err"), panics]
Invoked(sig, args) ==
  LET np == Len(sig.params) IN
  IF sig.variadic
  THEN \* only the fixed parameters given (nothing for the variadic one) is certainly a valid call; what the bridge does
       \* with arguments for the variadic parameter is left open
       IF Len(args) = np - 1 /\ \A i \in 1..(np - 1) : Fits(sig.params[i], args[i]) = "yes" THEN "yes" ELSE "either"
  ELSE IF Len(args) # np THEN "no"
  ELSE IF \E i \in 1..np : Fits(sig.params[i], args[i]) = "no" THEN "no"
  ELSE IF \E i \in 1..np : Fits(sig.params[i], args[i]) = "either" THEN "either"
  ELSE "yes"

\* the outcome class when the function is invoked
OutcomeInvoked(sig) == IF sig.panics \/ sig.err = "err" THEN "error" ELSE "results"
\* how many ECAL values come back (the trailing error is not one of them)
NumReturned(sig) == Len(sig.results)
=============================================================================
