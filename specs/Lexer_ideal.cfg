SPECIFICATION Spec
CONSTANTS
 N = 5
 Variant = "ideal"
INVARIANTS TrueLines TrueColumns
CHECK_DEADLOCK FALSE
