SPECIFICATION FairSpec
CONSTANTS
 Threads <- MC_Threads
 Names <- MC_Names
 Script <- MC_Script
 Variant = "owner-early"
INVARIANTS Excl OwnerSound AllReleased NoStuck
PROPERTY Terminates
CHECK_DEADLOCK FALSE
