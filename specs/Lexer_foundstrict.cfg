SPECIFICATION Spec
CONSTANTS
 N = 5
 Variant = "found"
INVARIANTS TrueLines TrueColumns
CHECK_DEADLOCK FALSE
