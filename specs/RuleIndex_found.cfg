SPECIFICATION Spec
CONSTANTS
 RuleSets <- MC_RuleSets
 Events <- MC_Events
 Scopes <- MC_Scopes
 MaxHist = 2
 LeafCap = 2
 Variant = "found"
INVARIANTS FiredExactly NeverSkippedIfFires Terminates PreCheckOverApproximates
CHECK_DEADLOCK FALSE
