CONSTANT MaxSegs = 4
CONSTANT MaxLong = 6
