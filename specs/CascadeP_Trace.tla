--------------------------- MODULE CascadeP_Trace ---------------------------
(***************************************************************************)
(* Property-level specification of an event cascade (C02, C10) and         *)
(* validation of recorded executions of the real processor against it.     *)
(*                                                                         *)
(* A run starts with a "prog" record that lists the rules (name, kind,     *)
(* priority, fails) and the fail-on-first-error setting.  The abstract     *)
(* state knows the monitors handed to the processor, which of them were    *)
(* activated / finished, the rule actions started and ended, the per-root  *)
(* queue content and what was reported.  Every recorded event must be      *)
(* allowed in the state it meets:                                          *)
(*   rule order      ascending priority, one after the other (C10)         *)
(*   fail fast       nothing after the first failing rule; otherwise all   *)
(*   pop             minimum (priority, age) of the root's queue (C10)     *)
(*   hp              lowest priority of activated, unfinished monitors     *)
(*   finished(m)     only after the rules that must run for m have ended   *)
(*   waitret(r)      only after every monitor of r finished and every      *)
(*                   action ended; report = exactly the failed (m, rule)   *)
(*   final           one finish notification per root, all finished        *)
(***************************************************************************)
EXTENDS Integers, Sequences, FiniteSets, TLC, Json, IOUtils

Trace == ndJsonDeserialize(IOEnv.VERIF_TRACE)

VARIABLES i, prog,
          mons,      \* [monitor id -> [root, kind, prio, st, trig]]  st: new | active | skipped | done
          ran,       \* [monitor id -> Seq of [rule, failed, ended]]
          queue,     \* [root -> Seq of [m, prio]] in push order
          handled,   \* [root -> Nat] finish notifications
          returned,  \* set of roots whose wait returned
          skip, bad

vars == <<i, prog, mons, ran, queue, handled, returned, skip, bad>>

With(f, c, v) == [x \in DOMAIN f \cup {c} |-> IF x = c THEN v ELSE f[x]]
SeqToSet(s) == {s[j] : j \in 1..Len(s)}
Min(S) == CHOOSE x \in S : \A y \in S : x <= y

Init == /\ i = 1 /\ prog = [rules |-> <<>>, failfast |-> FALSE]
        /\ mons = <<>> /\ ran = <<>> /\ queue = <<>> /\ handled = <<>> /\ returned = {}
        /\ skip = FALSE /\ bad = <<>>

Rules == SeqToSet(prog.rules)
RulesOf(kind) == {r \in Rules : r.kind = kind}
RuleByName(n) == CHOOSE r \in Rules : r.name = n
IsRule(n) == \E r \in Rules : r.name = n

\* the rules that have to run for monitor m given what ran so far: all rules of its kind,
\* cut after the first failing one under fail-fast
Started(m) == {ran[m][j].rule : j \in 1..Len(ran[m])}
AnyFailed(m) == \E j \in 1..Len(ran[m]) : ran[m][j].failed
AllEnded(m) == \A j \in 1..Len(ran[m]) : ran[m][j].ended
Remaining(m) == {r \in RulesOf(mons[m].kind) : r.name \notin Started(m)}
Complete(m) == AllEnded(m) /\ (Remaining(m) = {} \/ (prog.failfast /\ AnyFailed(m)))

MonsOf(r) == {m \in DOMAIN mons : mons[m].root = r}
ActivePrios(r) == {mons[m].prio : m \in {x \in MonsOf(r) : mons[x].st = "active"}}
Highest(r) == IF ActivePrios(r) = {} THEN -1 ELSE Min(ActivePrios(r))

FailedPairs(r) == UNION {{<<m, ran[m][j].rule>> : j \in {k \in 1..Len(ran[m]) : ran[m][k].failed}} : m \in MonsOf(r)}

PosOf(q, m) == CHOOSE j \in 1..Len(q) : q[j].m = m
InQ(q, m) == \E j \in 1..Len(q) : q[j].m = m
RemoveAt(q, j) == SubSeq(q, 1, j - 1) \o SubSeq(q, j + 1, Len(q))

Ok(e) ==
  CASE e.ev = "root"  -> e.m \notin DOMAIN mons
    [] e.ev = "child" -> e.m \notin DOMAIN mons /\ e.par \in DOMAIN mons /\ mons[e.par].st = "active"
    \* AddEvent returned for monitor m: triggered iff some rule matches its kind (C01: never skipped otherwise)
    [] e.ev = "activate" -> e.m \in DOMAIN mons /\ mons[e.m].st = "new" /\ RulesOf(mons[e.m].kind) # {}
    [] e.ev = "skipped"  -> e.m \in DOMAIN mons /\ mons[e.m].st = "new" /\ RulesOf(mons[e.m].kind) = {}
    [] e.ev = "push" -> e.m \in DOMAIN mons /\ mons[e.m].st = "active" /\ mons[e.m].root = e.r
    [] e.ev = "pop"  -> /\ e.r \in DOMAIN queue /\ InQ(queue[e.r], e.m)
                        /\ LET q == queue[e.r]  j == PosOf(q, e.m) IN
                           \A k \in 1..Len(q) : k # j => (q[k].prio > q[j].prio \/ (q[k].prio = q[j].prio /\ k > j))
    [] e.ev = "rstart" -> /\ e.m \in DOMAIN mons /\ mons[e.m].st = "active" /\ IsRule(e.rule)
                          /\ LET r == RuleByName(e.rule) IN
                             /\ r \in Remaining(e.m)
                             /\ AllEnded(e.m)                                   \* one after the other
                             /\ \A o \in Remaining(e.m) : o.prio >= r.prio      \* ascending priority
                             /\ ~ (prog.failfast /\ AnyFailed(e.m))             \* nothing after a failure
    [] e.ev = "rend" -> /\ e.m \in DOMAIN ran /\ Len(ran[e.m]) > 0
                        /\ LET l == ran[e.m][Len(ran[e.m])] IN l.rule = e.rule /\ ~ l.ended
    [] e.ev = "hp" -> e.v = Highest(e.r)
    [] e.ev = "finished" -> /\ e.m \in DOMAIN mons /\ mons[e.m].st \in {"active", "skipped"}
                            /\ (mons[e.m].st = "active" => Complete(e.m))
    [] e.ev = "handler" -> TRUE
    [] e.ev = "waitret" -> /\ \A m \in MonsOf(e.r) : mons[m].st = "done" /\ AllEnded(m)
                           /\ {<<p[1], p[2]>> : p \in SeqToSet(e.errs)} = FailedPairs(e.r)
                           /\ Len(e.errs) = Cardinality(FailedPairs(e.r))
    [] e.ev = "final" -> /\ \A m \in DOMAIN mons : mons[m].st = "done"
                         \* one finish notification per cascade; a root event that triggered nothing started no cascade
                         /\ \A m \in DOMAIN mons : mons[m].root = m =>
                               IF mons[m].trig THEN (m \in DOMAIN handled /\ handled[m] = 1) ELSE m \notin DOMAIN handled
                         /\ \A r \in DOMAIN queue : queue[r] = <<>>
                         /\ ~ e.b                                                 \* no caller blocked for ever
    [] OTHER -> FALSE

Apply(e) ==
  /\ mons' = CASE e.ev = "root"     -> With(mons, e.m, [root |-> e.m, kind |-> e.k, prio |-> 0, st |-> "new", trig |-> FALSE])
               [] e.ev = "child"    -> With(mons, e.m, [root |-> mons[e.par].root, kind |-> e.k, prio |-> e.p, st |-> "new", trig |-> FALSE])
               [] e.ev = "activate" -> [mons EXCEPT ![e.m].st = "active", ![e.m].trig = TRUE]
               [] e.ev = "skipped"  -> [mons EXCEPT ![e.m].st = "skipped"]
               [] e.ev = "finished" -> [mons EXCEPT ![e.m].st = "done"]
               [] OTHER -> mons
  /\ ran' = CASE e.ev \in {"root", "child"} -> With(ran, e.m, <<>>)
              [] e.ev = "rstart" -> [ran EXCEPT ![e.m] = Append(@, [rule |-> e.rule, failed |-> FALSE, ended |-> FALSE])]
              [] e.ev = "rend"   -> [ran EXCEPT ![e.m][Len(ran[e.m])] = [rule |-> e.rule, failed |-> e.b, ended |-> TRUE]]
              [] OTHER -> ran
  /\ queue' = CASE e.ev = "push" -> With(queue, e.r, (IF e.r \in DOMAIN queue THEN queue[e.r] ELSE <<>>) \o <<[m |-> e.m, prio |-> e.p]>>)
                [] e.ev = "pop"  -> [queue EXCEPT ![e.r] = RemoveAt(@, PosOf(@, e.m))]
                [] OTHER -> queue
  /\ handled' = IF e.ev = "handler" THEN With(handled, e.r, (IF e.r \in DOMAIN handled THEN handled[e.r] ELSE 0) + 1) ELSE handled
  /\ returned' = IF e.ev = "waitret" THEN returned \cup {e.r} ELSE returned
  /\ UNCHANGED prog

Next ==
  /\ i <= Len(Trace)
  /\ i' = i + 1
  /\ LET e == Trace[i] IN
     IF e.ev = "prog" THEN /\ prog' = [rules |-> e.rules, failfast |-> e.b]
                           /\ mons' = <<>> /\ ran' = <<>> /\ queue' = <<>> /\ handled' = <<>> /\ returned' = {}
                           /\ skip' = FALSE /\ UNCHANGED bad
     ELSE IF skip THEN UNCHANGED <<prog, mons, ran, queue, handled, returned, skip, bad>>
     ELSE IF Ok(e) THEN /\ Apply(e) /\ UNCHANGED <<skip, bad>>
     ELSE /\ bad' = Append(bad, i) /\ skip' = TRUE /\ UNCHANGED <<prog, mons, ran, queue, handled, returned>>

Spec == Init /\ [][Next]_vars
Report == (i = Len(Trace) + 1) => PrintT(<<"TRACE-RESULT", Len(Trace), ToJson(bad)>>)
=============================================================================
