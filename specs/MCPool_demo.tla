---- MODULE MCPool_demo ----
EXTENDS Pool
MC_Tasks == 1..3
MC_Children == [t \in 1..3 |-> IF t = 1 THEN <<3>> ELSE <<>>]
MC_Needs == [t \in 1..3 |-> IF t = 2 THEN {3} ELSE {}]
MC_Clients == {"c1"}
MC_Script == [c \in {"c1"} |-> << [op |-> "set", t |-> 0, n |-> 2, wait |-> FALSE], [op |-> "add", t |-> 1, n |-> 0, wait |-> FALSE], [op |-> "add", t |-> 2, n |-> 0, wait |-> FALSE] >>]
====
