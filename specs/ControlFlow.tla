----------------------------- MODULE ControlFlow -----------------------------
(***************************************************************************)
(* Reference big-step semantics of ECAL control flow (C04):                *)
(* if / elif / else, guard loops, `in` loops over ranges, lists and maps,  *)
(* break / continue / return, functions, try / except / otherwise /        *)
(* finally, raise.                                                         *)
(*                                                                         *)
(* Programs are JSON-shaped records (field k = statement kind):            *)
(*   mark(m)              append the marker m to the log                   *)
(*   assign(var, e)       e = [t |-> "const", n] | [t |-> "add", var, n]   *)
(*   if(guards)           guards = << [c |-> cond, b |-> body] ... >>      *)
(*   loopguard(c, b)  looprange(var, from, to, step, b)                    *)
(*   looplist(var, vals, b)   loopmap(keys, b)  (marks the key's index)    *)
(*   break continue return(n) raise(ty) rterr                              *)
(*   callmark(f)          call function f, mark its result (-1 for NULL)   *)
(*   try(b, excepts, hasother, other, hasfin, fin)                         *)
(*       excepts = << [types |-> <<...>>, b |-> body] ... >>               *)
(* cond = [t |-> "const", b] | [t |-> "cmp", var, op, n].                  *)
(* Exec returns [log, env, sig]; sig.s in normal break continue return     *)
(* error (with sig.v / sig.ty).                                            *)
(***************************************************************************)
EXTENDS Integers, Sequences, FiniteSets

Normal == [s |-> "normal", v |-> 0, ty |-> ""]
Sig(s, v, ty) == [s |-> s, v |-> v, ty |-> ty]
St(log, env, sig) == [log |-> log, env |-> env, sig |-> sig]

Get(env, x) == IF x \in DOMAIN env THEN env[x] ELSE 0
Put(env, x, n) == [y \in DOMAIN env \cup {x} |-> IF y = x THEN n ELSE env[y]]

Cond(c, env) ==
  IF c.t = "const" THEN c.b
  ELSE LET a == Get(env, c.var) IN
       CASE c.op = "<" -> a < c.n [] c.op = "==" -> a = c.n [] c.op = ">" -> a > c.n [] OTHER -> FALSE

RECURSIVE SeqLess(_, _)
SeqLess(a, b) == IF b = <<>> THEN FALSE ELSE IF a = <<>> THEN TRUE
                 ELSE IF a[1] < b[1] THEN TRUE ELSE IF a[1] > b[1] THEN FALSE ELSE SeqLess(Tail(a), Tail(b))
\* indices of keys in the order of their text form
RECURSIVE SortedIdx(_, _)
SortedIdx(keys, todo) ==
  IF todo = {} THEN <<>>
  ELSE LET m == CHOOSE j \in todo : \A o \in todo \ {j} : SeqLess(keys[j], keys[o]) \/ (keys[j] = keys[o] /\ j < o)
       IN <<m>> \o SortedIdx(keys, todo \ {m})

RangeVals(from, to, step) ==          \* inclusive end, positive or negative step
  IF step > 0 THEN [j \in 1..(IF from > to THEN 0 ELSE (to - from) \div step + 1) |-> from + (j - 1) * step]
  ELSE IF step < 0 THEN [j \in 1..(IF from < to THEN 0 ELSE (from - to) \div (-step) + 1) |-> from + (j - 1) * step]
  ELSE <<>>

CONSTANT MaxIter      \* bound for guard loops (the generators only build terminating loops)

RECURSIVE Exec(_, _, _, _), Block(_, _, _, _, _), Loop(_, _, _, _, _, _), Guards(_, _, _, _, _), GuardLoop(_, _, _, _, _, _)

\* a sequence of statements: stops at the first signal that is not normal
Block(b, j, funcs, log, env) ==
  IF j > Len(b) THEN St(log, env, Normal)
  ELSE LET r == Exec(b[j], funcs, log, env) IN
       IF r.sig.s # "normal" THEN r ELSE Block(b, j + 1, funcs, r.log, r.env)

Guards(gs, j, funcs, log, env) ==
  IF j > Len(gs) THEN St(log, env, Normal)
  ELSE IF Cond(gs[j].c, env) THEN Block(gs[j].b, 1, funcs, log, env)
  ELSE Guards(gs, j + 1, funcs, log, env)

\* one iteration per value: break ends the loop, continue goes on, return / error leave it
Loop(var, vals, j, body, funcs, st) ==
  IF j > Len(vals) THEN St(st.log, st.env, Normal)
  ELSE LET r == Block(body, 1, funcs, st.log, IF var = "" THEN st.env ELSE Put(st.env, var, vals[j])) IN
       CASE r.sig.s = "break" -> St(r.log, r.env, Normal)
         [] r.sig.s \in {"normal", "continue"} -> Loop(var, vals, j + 1, body, funcs, St(r.log, r.env, Normal))
         [] OTHER -> r

GuardLoop(c, body, funcs, log, env, n) ==
  IF n > MaxIter \/ ~ Cond(c, env) THEN St(log, env, Normal)
  ELSE LET r == Block(body, 1, funcs, log, env) IN
       CASE r.sig.s = "break" -> St(r.log, r.env, Normal)
         [] r.sig.s \in {"normal", "continue"} -> GuardLoop(c, body, funcs, r.log, r.env, n + 1)
         [] OTHER -> r

\* first except clause which lists the type (or lists no type)
Handler(excepts, ty) ==
  LET ok == {j \in 1..Len(excepts) : excepts[j].types = <<>> \/ \E k \in 1..Len(excepts[j].types) : excepts[j].types[k] = ty} IN
  IF ok = {} THEN 0 ELSE CHOOSE j \in ok : \A o \in ok : j <= o

Exec(s, funcs, log, env) ==
  CASE s.k = "mark" -> St(Append(log, s.m), env, Normal)
    [] s.k = "assign" -> St(log, Put(env, s.var, IF s.e.t = "const" THEN s.e.n ELSE Get(env, s.e.var) + s.e.n), Normal)
    [] s.k = "if" -> Guards(s.guards, 1, funcs, log, env)
    [] s.k = "loopguard" -> GuardLoop(s.c, s.b, funcs, log, env, 1)
    [] s.k = "looprange" -> Loop(s.var, RangeVals(s.from, s.to, s.step), 1, s.b, funcs, St(log, env, Normal))
    [] s.k = "looplist" -> Loop(s.var, s.vals, 1, s.b, funcs, St(log, env, Normal))
    [] s.k = "loopmap" -> Loop(s.var, SortedIdx(s.keys, 1..Len(s.keys)), 1, s.b, funcs, St(log, env, Normal))
    [] s.k = "break" -> St(log, env, Sig("break", 0, ""))
    [] s.k = "continue" -> St(log, env, Sig("continue", 0, ""))
    [] s.k = "return" -> St(log, env, Sig("return", s.n, ""))
    [] s.k = "raise" -> St(log, env, Sig("error", 0, s.ty))
    [] s.k = "rterr" -> St(log, env, Sig("error", 0, "Operand is not a number"))
    [] s.k = "callmark" ->
         LET r == Block(funcs[s.f], 1, funcs, log, env) IN
         CASE r.sig.s = "return" -> St(Append(r.log, r.sig.v), r.env, Normal)
           [] r.sig.s = "normal" -> St(Append(r.log, -1), r.env, Normal)     \* no return statement: NULL
           [] OTHER -> r                                                      \* an error leaves the call
    [] s.k = "try" ->
         LET r == Block(s.b, 1, funcs, log, env)
             h == IF r.sig.s = "error" THEN Handler(s.excepts, r.sig.ty) ELSE 0
             \* error: first matching clause handles it (its own outcome counts); none: unchanged to the caller
             \* no error, normal end: otherwise; control signals pass
             after == IF r.sig.s = "error"
                        THEN (IF h = 0 THEN r ELSE Block(s.excepts[h].b, 1, funcs, r.log, r.env))
                        ELSE IF r.sig.s = "normal" /\ s.hasother THEN Block(s.other, 1, funcs, r.log, r.env)
                        ELSE r
             \* finally: exactly once on every way out; what it signals itself is not part of the outcome
             fin == IF s.hasfin THEN Block(s.fin, 1, funcs, after.log, after.env) ELSE after
         IN St(fin.log, fin.env, after.sig)
    [] OTHER -> St(log, env, Sig("error", 0, "unknown statement"))

Run(prog) == Block(prog.body, 1, prog.funcs, <<>>, <<>>)
=============================================================================
