SPECIFICATION Spec
CONSTANTS
 Inv <- MC_Inv
 SinkOf <- MC_SinkOf
 Out <- MC_Out
 Variant = "shared-event"
INVARIANTS OwnEvent
CHECK_DEADLOCK FALSE
