SPECIFICATION Spec
CONSTANT MaxIter = 12
INVARIANT Report
CHECK_DEADLOCK FALSE
