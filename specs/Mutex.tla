------------------------------- MODULE Mutex -------------------------------
(***************************************************************************)
(* interpreter/rt_statements.go mutexRuntime.Eval (C12): named mutex       *)
(* blocks, re-entrant per thread, released on every way out.               *)
(*                                                                         *)
(* A thread runs a script: a well-nested sequence of instructions          *)
(*   <<"enter", name>>, <<"leave">> (normal end of the innermost block)    *)
(*   <<"raise">> (error / return / break / continue leaving ALL open       *)
(*   blocks: every open block runs its deferred release, then the thread   *)
(*   ends).                                                                *)
(* One action per critical section of the code (the observation points     *)
(* mutex.ownerRead, mutex.locked, mutex.ownerSet, mutex.ownerCleared,      *)
(* mutex.unlocked, mutex.reentered separate them).                         *)
(* Variant "code"; wrong variants refuted as self-test:                    *)
(*   "no-defer"      an abnormal exit does not release                     *)
(*   "owner-early"   ownership recorded before the lock is taken           *)
(*   "owner-kept"    ownership not cleared on release                      *)
(***************************************************************************)
EXTENDS Integers, Sequences, FiniteSets, TLC

CONSTANTS Threads, Names, Script, Variant
NONE == 0      \* thread ids are >= 1 (NewThreadID)

VARIABLES pc,      \* [Threads -> index into the script]
          sub,     \* [Threads -> "fetch" | "wantlock" | "setowner" | "clear" | "unlock"]
          seen,    \* [Threads -> owner read under the table lock]
          stack,   \* [Threads -> Seq of [n, locked]] open blocks
          unwind,  \* [Threads -> BOOLEAN]
          holder,  \* [Names -> thread holding the sync.Mutex]
          owner    \* [Names -> owner table]
vars == <<pc, sub, seen, stack, unwind, holder, owner>>

Init == /\ pc = [t \in Threads |-> 1] /\ sub = [t \in Threads |-> "fetch"] /\ seen = [t \in Threads |-> NONE]
        /\ stack = [t \in Threads |-> <<>>] /\ unwind = [t \in Threads |-> FALSE]
        /\ holder = [n \in Names |-> NONE] /\ owner = [n \in Names |-> NONE]

Done(t) == pc[t] > Len(Script[t]) /\ stack[t] = <<>> /\ sub[t] = "fetch"
Instr(t) == Script[t][pc[t]]
Top(t) == stack[t][Len(stack[t])]
Pop(t) == SubSeq(stack[t], 1, Len(stack[t]) - 1)

\* enter: lookup-or-create and read the owner under the table lock
T_OwnerRead(t) ==
  /\ ~ unwind[t] /\ sub[t] = "fetch" /\ pc[t] <= Len(Script[t]) /\ Instr(t)[1] = "enter"
  /\ LET n == Instr(t)[2] IN
     /\ seen' = [seen EXCEPT ![t] = owner[n]]
     /\ IF owner[n] = t
          THEN /\ stack' = [stack EXCEPT ![t] = Append(@, [n |-> n, locked |-> FALSE])]   \* re-entered, no lock
               /\ pc' = [pc EXCEPT ![t] = @ + 1] /\ UNCHANGED <<sub, owner>>
          ELSE /\ sub' = [sub EXCEPT ![t] = "wantlock"]
               /\ owner' = IF Variant = "owner-early" THEN [owner EXCEPT ![n] = t] ELSE owner
               /\ UNCHANGED <<stack, pc>>
  /\ UNCHANGED <<unwind, holder>>

T_Lock(t) ==
  /\ sub[t] = "wantlock"
  /\ LET n == Instr(t)[2] IN /\ holder[n] = NONE /\ holder' = [holder EXCEPT ![n] = t]
  /\ sub' = [sub EXCEPT ![t] = "setowner"]
  /\ UNCHANGED <<pc, seen, stack, unwind, owner>>

T_SetOwner(t) ==
  /\ sub[t] = "setowner"
  /\ LET n == Instr(t)[2] IN
     /\ owner' = [owner EXCEPT ![n] = t]
     /\ stack' = [stack EXCEPT ![t] = Append(@, [n |-> n, locked |-> TRUE])]
  /\ sub' = [sub EXCEPT ![t] = "fetch"] /\ pc' = [pc EXCEPT ![t] = @ + 1]
  /\ UNCHANGED <<seen, unwind, holder>>

\* a block ends (normally, or while unwinding): deferred release of a locked block, two steps
Leaving(t) == /\ sub[t] = "fetch" /\ stack[t] # <<>>
              /\ (unwind[t] \/ (pc[t] <= Len(Script[t]) /\ Instr(t)[1] = "leave"))
AfterPop(t) == IF unwind[t] THEN UNCHANGED pc ELSE pc' = [pc EXCEPT ![t] = @ + 1]

T_LeaveReentered(t) ==
  /\ Leaving(t) /\ ~ Top(t).locked
  /\ stack' = [stack EXCEPT ![t] = Pop(t)] /\ AfterPop(t)
  /\ UNCHANGED <<sub, seen, unwind, holder, owner>>

T_ClearOwner(t) ==
  /\ Leaving(t) /\ Top(t).locked
  /\ IF unwind[t] /\ Variant = "no-defer"
       THEN /\ stack' = [stack EXCEPT ![t] = Pop(t)] /\ UNCHANGED <<owner, sub>>      \* lock and ownership left behind
       ELSE /\ owner' = IF Variant = "owner-kept" THEN owner ELSE [owner EXCEPT ![Top(t).n] = NONE]
            /\ sub' = [sub EXCEPT ![t] = "unlock"] /\ UNCHANGED stack
  /\ UNCHANGED <<pc, seen, unwind, holder>>

T_Unlock(t) ==
  /\ sub[t] = "unlock"
  /\ holder' = [holder EXCEPT ![Top(t).n] = NONE]
  /\ stack' = [stack EXCEPT ![t] = Pop(t)]
  /\ sub' = [sub EXCEPT ![t] = "fetch"] /\ AfterPop(t)
  /\ UNCHANGED <<seen, unwind, owner>>

\* error / return / break / continue: leave all open blocks, then the thread ends
T_Raise(t) ==
  /\ ~ unwind[t] /\ sub[t] = "fetch" /\ pc[t] <= Len(Script[t]) /\ Instr(t)[1] = "raise"
  /\ unwind' = [unwind EXCEPT ![t] = TRUE] /\ pc' = [pc EXCEPT ![t] = Len(Script[t]) + 1]
  /\ UNCHANGED <<sub, seen, stack, holder, owner>>

Step(t) == \/ T_OwnerRead(t) \/ T_Lock(t) \/ T_SetOwner(t) \/ T_LeaveReentered(t)
           \/ T_ClearOwner(t) \/ T_Unlock(t) \/ T_Raise(t)
Next == \E t \in Threads : Step(t)
Spec == Init /\ [][Next]_vars
FairSpec == Spec /\ \A t \in Threads : WF_vars(Step(t))

(* ---- C12 ---------------------------------------------------------------------------------- *)
Inside(t, n) == \E j \in 1..Len(stack[t]) : stack[t][j].n = n
Excl == \A n \in Names : Cardinality({t \in Threads : Inside(t, n)}) <= 1
OwnerSound == \A n \in Names : owner[n] # NONE => (Variant = "owner-early" \/ holder[n] = owner[n])
AllDone == \A t \in Threads : Done(t)
AllReleased == AllDone => \A n \in Names : holder[n] = NONE
NoStuck == (~ ENABLED Next) => AllDone           \* a later entrant always gets in
Terminates == <>AllDone
=============================================================================
