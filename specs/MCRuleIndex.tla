---- MODULE MCRuleIndex ----
EXTENDS RuleIndex

MAny(k) == [k |-> k, t |-> "any", n |-> 0, s |-> "", anchs |-> FALSE, anche |-> FALSE, body |-> <<>>]
MNum(k, v) == [k |-> k, t |-> "num", n |-> v, s |-> "", anchs |-> FALSE, anche |-> FALSE, body |-> <<>>]
MRe(k, as, b) == [k |-> k, t |-> "re", n |-> 0, s |-> "", anchs |-> as, anche |-> FALSE, body |-> b]

R(kinds, hs, st, sc, sup) == [name |-> "", kinds |-> kinds, hasstate |-> hs, state |-> st, scope |-> sc, suppress |-> sup]

\* the rule universe: overlapping patterns, two patterns per rule, wildcards at either level,
\* state rules sharing a kind (so that a leaf fills up), scope requirements, suppression of r1 / r2
Universe == {
  R(<< <<"a", "*">>, <<"*", "b">> >>, FALSE, <<>>, <<>>, <<>>),
  R(<< <<"a", "b">> >>, FALSE, <<>>, <<>>, <<"r1">>),
  R(<< <<"*", "*">> >>, FALSE, <<>>, << <<"s">> >>, <<>>),
  R(<< <<"a">> >>, FALSE, <<>>, <<>>, <<"r2">>),
  R(<< <<"a", "b">> >>, TRUE, << MAny("k") >>, <<>>, <<>>),
  R(<< <<"a", "b">> >>, TRUE, << MNum("k", 1) >>, <<>>, <<>>),
  R(<< <<"a", "b">>, <<"a", "c">> >>, TRUE, << MRe("k", TRUE, <<"a">>) >>, <<>>, <<>>),
  R(<< <<"a", "b">> >>, TRUE, <<>>, << <<"s", "t">> >>, <<>>)
}

Named(seq) == [j \in 1..Len(seq) |-> [seq[j] EXCEPT !.name = IF j = 1 THEN "r1" ELSE IF j = 2 THEN "r2" ELSE "r3"]]
MC_RuleSets == {Named(<<a>>) : a \in Universe} \cup {Named(<<a, b>>) : a \in Universe, b \in Universe}
               \cup {Named(<<a, b, c>>) : a \in {x \in Universe : x.hasstate}, b \in {x \in Universe : x.hasstate}, c \in {x \in Universe : x.hasstate}}

\* rules added later: a wildcard pattern, a literal pattern, a state rule
MC_Extra == { R(<< <<"*", "c">> >>, FALSE, <<>>, <<>>, <<>>),
              R(<< <<"b", "c">> >>, FALSE, <<>>, <<>>, <<"r1">>),
              R(<< <<"a", "*">> >>, TRUE, << MAny("k") >>, <<>>, <<>>) }

V(t, nn, ss, cs) == [t |-> t, n |-> nn, s |-> ss, cs |-> cs]
MC_Events == {
  [name |-> "E1", kind |-> <<"a", "b">>, state |-> <<>>],
  [name |-> "E2", kind |-> <<"b", "c">>, state |-> <<>>],
  [name |-> "E2", kind |-> <<"a", "b">>, state |-> << [k |-> "k", v |-> V("num", 1, "", <<"1">>)] >>],
  [name |-> "E1", kind |-> <<"a", "c">>, state |-> << [k |-> "k", v |-> V("str", 0, "ab", <<"a", "b">>)] >>],
  [name |-> "E3", kind |-> <<"a">>, state |-> <<>>],
  [name |-> "E3", kind |-> <<"a", "b">>, state |-> << [k |-> "k", v |-> V("null", 0, "", <<"<", "n", "i", "l", ">">>)] >>]
}
MC_Scopes == { << [path |-> <<>>, allow |-> TRUE] >>,
               << [path |-> <<>>, allow |-> TRUE], [path |-> <<"s">>, allow |-> FALSE], [path |-> <<"s", "t">>, allow |-> TRUE] >>,
               <<>> }
====
