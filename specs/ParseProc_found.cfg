SPECIFICATION Spec
CONSTANTS
 MaxTok = 6
 Variant = "found"
INVARIANT NoLeak
PROPERTY Terminates
CHECK_DEADLOCK FALSE
