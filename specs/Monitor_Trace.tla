---------------------------- MODULE Monitor_Trace ----------------------------
(***************************************************************************)
(* Property-level validation of recorded monitor histories (C10): after    *)
(* every operation on the real monitors the value returned by              *)
(* RootMonitor.HighestPriority() must be the lowest priority number among  *)
(* the monitors that were activated by a triggering event and have not     *)
(* finished (-1 if none).  Skipped monitors never count.                   *)
(* Records: [op, m, p, hp]; "reset" starts a new history.                  *)
(***************************************************************************)
EXTENDS Integers, Sequences, FiniteSets, TLC, Json, IOUtils

Trace == ndJsonDeserialize(IOEnv.VERIF_TRACE)

VARIABLES i, act, known, skip, bad
vars == <<i, act, known, skip, bad>>

Min(S) == CHOOSE x \in S : \A y \in S : x <= y
HighestOf(f) == IF DOMAIN f = {} THEN -1 ELSE Min({f[m] : m \in DOMAIN f})

Init == i = 1 /\ act = <<>> /\ known = <<>> /\ skip = FALSE /\ bad = <<>>

With(f, c, v) == [x \in DOMAIN f \cup {c} |-> IF x = c THEN v ELSE f[x]]
Without(f, c) == [x \in DOMAIN f \ {c} |-> f[x]]

\* successor of the abstract state
ActAfter(e) ==
  CASE e.op = "create"   -> act
    [] e.op = "activate" -> With(act, e.m, known[e.m])
    [] e.op = "skip"     -> act
    [] e.op = "finish"   -> Without(act, e.m)
    [] OTHER -> act
KnownAfter(e) == IF e.op = "create" THEN With(known, e.m, e.p) ELSE known

Legal(e) ==
  CASE e.op = "create"   -> e.m \notin DOMAIN known
    [] e.op = "activate" -> e.m \in DOMAIN known /\ e.m \notin DOMAIN act
    [] e.op = "skip"     -> e.m \in DOMAIN known /\ e.m \notin DOMAIN act
    [] e.op = "finish"   -> e.m \in DOMAIN act
    [] OTHER -> FALSE

Next ==
  /\ i <= Len(Trace)
  /\ i' = i + 1
  /\ LET e == Trace[i] IN
     IF e.op = "reset" THEN /\ act' = <<>> /\ known' = (0 :> 0) /\ skip' = FALSE /\ UNCHANGED bad
     ELSE IF skip THEN UNCHANGED <<act, known, skip, bad>>
     ELSE IF Legal(e) /\ e.hp = HighestOf(ActAfter(e))
            THEN /\ act' = ActAfter(e) /\ known' = KnownAfter(e) /\ UNCHANGED <<skip, bad>>
            ELSE /\ bad' = Append(bad, i) /\ skip' = TRUE /\ UNCHANGED <<act, known>>

Spec == Init /\ [][Next]_vars
Report == (i = Len(Trace) + 1) => PrintT(<<"TRACE-RESULT", Len(Trace), ToJson(bad)>>)
=============================================================================
