----------------------------- MODULE ImportPath -----------------------------
(***************************************************************************)
(* util/import.go FileImportLocator (C17): path confinement.               *)
(*                                                                         *)
(* Everything is lexical.  A directory universe below a base directory:    *)
(*   base/root/...   the code root with files and directories              *)
(*   base/a, base/b, base/rootx, base/root2/a   files OUTSIDE the root,    *)
(*                   some with the names of files inside it                *)
(* An import path is a sequence of segments (names, ".", "..", "", names   *)
(* with dots and spaces) with or without a leading separator; the root is  *)
(* spelled in several ways.  The reference resolves root + path segment by *)
(* segment on a stack (".." pops, "." and "" do nothing), and the result   *)
(* must be: the content of the file at that location if the location is    *)
(* inside the root and is a file of the universe, otherwise an error -     *)
(* never the content of anything outside.                                  *)
(* TLC writes all cases with their expectation as ndjson (direction A).    *)
(***************************************************************************)
EXTENDS ImportPathRef, TLC, Json, IOUtils, SequencesExt

CONSTANTS MaxSegs,      \* all paths over the full segment alphabet up to this length
          MaxLong       \* all paths over the core alphabet up to this length

Paths == UNION {[1..n -> Segs] : n \in 0..MaxSegs} \cup UNION {[1..n -> CoreSegs] : n \in 0..MaxLong}
Cases == {[root |-> r, lead |-> l, path |-> p, exp |-> Expect(r, p)] : r \in Roots, l \in {TRUE, FALSE}, p \in Paths}

ASSUME PrintT(<<"CASES", Cardinality(Cases)>>)
ASSUME ndJsonSerialize(IOEnv.VERIF_OUT, SetToSeq(Cases))
=============================================================================
