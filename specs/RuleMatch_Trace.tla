-------------------------- MODULE RuleMatch_Trace --------------------------
(***************************************************************************)
(* Validation of recorded cases of the real engine against RuleMatch (C01).*)
(* A "case" record sets the rule set and the cascade scope (a fresh        *)
(* processor); every following "event" record is one event added to the    *)
(* running processor, in order, with what the real code did:               *)
(*   fired   the rule actions invoked for it (rule names, with repeats)    *)
(*   skipped AddEventAndWait returned no monitor                           *)
(*   trig / match   results of RuleIndex.IsTriggering / RuleIndex.Match    *)
(* Allowed: fired = exactly the rules of Fires, each once; an event with a *)
(* non-empty Fires is never skipped and is reported as triggering; Match   *)
(* returns exactly the kind+state matching rules (as a set).               *)
(***************************************************************************)
EXTENDS RuleMatch, TLC, Json, IOUtils

Trace == ndJsonDeserialize(IOEnv.VERIF_TRACE)

VARIABLES i, rules, scope, bad
vars == <<i, rules, scope, bad>>

Init == i = 1 /\ rules = <<>> /\ scope = <<>> /\ bad = <<>>

EventOk(e) ==
  LET f == Fires(rules, e, scope) IN
  /\ SeqToSet(e.fired) = f
  /\ Len(e.fired) = Cardinality(f)              \* each exactly once
  /\ (e.skipped => f = {})
  /\ (f # {} => e.trig)
  /\ SeqToSet(e.match) = MatchNames(rules, e)

Next ==
  /\ i <= Len(Trace)
  /\ i' = i + 1
  /\ LET e == Trace[i] IN
     IF e.ev = "case" THEN rules' = e.rules /\ scope' = e.scope /\ UNCHANGED bad
     ELSE /\ UNCHANGED <<rules, scope>>
          /\ bad' = IF EventOk(e) THEN bad ELSE Append(bad, i)

Spec == Init /\ [][Next]_vars
Report == (i = Len(Trace) + 1) => PrintT(<<"TRACE-RESULT", Len(Trace), ToJson(bad)>>)
=============================================================================
