------------------------------ MODULE Expr_Trace ------------------------------
(***************************************************************************)
(* Validation of recorded expression cases against the reference (C03).    *)
(* A record: the token sequence that was rendered to source text, the      *)
(* environment, the tree the real parser built and what the real           *)
(* evaluation returned.  Clauses (result lists 10*i + k):                  *)
(*  1 the real tree is the tree of the reference parser (precedence,       *)
(*    associativity, prefix operators, parentheses)                        *)
(*  2 the real outcome is what the reference semantics allows              *)
(*  3 no process-level fault (panic) - also a C06 matter                   *)
(***************************************************************************)
EXTENDS EcalExpr, TLC, Json, IOUtils

Trace == ndJsonDeserialize(IOEnv.VERIF_TRACE)
VARIABLES i, bad, stats      \* stats: how many cases the reference decides as value / error / leaves open
vars == <<i, bad, stats>>
Init == i = 1 /\ bad = <<>> /\ stats = [val |-> 0, err |-> 0, open |-> 0]

EnvOf(e) == [n \in {e.env[j].k : j \in 1..Len(e.env)} |-> (e.env[CHOOSE j \in 1..Len(e.env) : e.env[j].k = n]).v]

RECURSIVE Match(_, _)
Match(x, o) ==
  CASE x.t = "any" -> TRUE
    [] x.t = "num" -> o.t = "num" /\ o.special = "" /\ Abs(x.p * 10000 - o.x * x.q) <= x.q
    [] x.t = "str" -> o.t = "str" /\ o.s = x.s
    [] x.t = "bool" -> o.t = "bool" /\ o.b = x.b
    [] x.t = "null" -> o.t = "null"
    [] x.t = "list" -> o.t = "list" /\ Len(o.e) = Len(x.e) /\ \A j \in 1..Len(x.e) : Match(x.e[j], o.e[j])
    [] OTHER -> FALSE

\* some subexpression is left open by the reference (it may also be an error in the implementation)
RECURSIVE HasOpen(_, _)
HasOpen(t, env) == Eval(t, env).t = "any" \/ \E j \in 1..Len(t.c) : HasOpen(t.c[j], env)

OutcomeOk(e) ==
  LET t == RefParse(e.toks)
      env == EnvOf(e)
      x == Eval(t, env) IN
  IF e.out.t = "fault" THEN TRUE            \* judged by clause 3
  ELSE IF x.t = "err"
    THEN /\ e.out.t = "err"
         /\ (x.ty = "zero" \/ HasOpen(t, env) \/ \E pe \in PossibleErrors(t, env) : pe.ty = e.out.ty /\ (pe.ty = "zero" \/ pe.tok = e.out.tok))
    ELSE IF x.t = "any" THEN TRUE
    ELSE e.out.t # "err" /\ Match(x, e.out)

Next ==
  /\ i <= Len(Trace) /\ i' = i + 1
  /\ LET e == Trace[i] IN
     bad' = bad \o (IF e.hastree /\ SameTree(RefParse(e.toks), e.tree) THEN <<>> ELSE <<10 * i + 1>>)
                \o (IF OutcomeOk(e) THEN <<>> ELSE <<10 * i + 2>>)
                \o (IF e.out.t # "fault" THEN <<>> ELSE <<10 * i + 3>>)
  /\ LET x == Eval(RefParse(Trace[i].toks), EnvOf(Trace[i])) IN
     stats' = IF x.t = "err" THEN [stats EXCEPT !.err = @ + 1]
              ELSE IF x.t = "any" THEN [stats EXCEPT !.open = @ + 1] ELSE [stats EXCEPT !.val = @ + 1]
Spec == Init /\ [][Next]_vars
Report == (i = Len(Trace) + 1) => (PrintT(<<"TRACE-STATS", ToJson(stats)>>) /\ PrintT(<<"TRACE-RESULT", Len(Trace), ToJson(bad)>>))
=============================================================================
