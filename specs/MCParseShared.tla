---- MODULE MCParseShared ----
EXTENDS ParseShared
MC_Parsers == {"ifp", "mapp", "forp"}
\* ifp:  if a { b := 1 }      -> guard, brace (the block), endguard
\* mapp: a := {1:2}           -> brace (a map literal)
\* forp: for a > 0 { }        -> guard, brace, endguard
MC_Script == [p \in MC_Parsers |-> IF p = "mapp" THEN <<"brace">> ELSE <<"guard", "brace", "endguard">>]
====
