------------------------------- MODULE Interp -------------------------------
(***************************************************************************)
(* Reference semantics of string interpolation (C14).                      *)
(*                                                                         *)
(* A string value is a sequence of bytes.  Evaluating a quoted literal     *)
(* scans its value ONCE from left to right: at the next {{ it looks for    *)
(* the next }} behind it, evaluates the text in between as an expression   *)
(* and continues BEHIND the replaced text; what a substitution produced is *)
(* never scanned again.  Without a closing }} the rest is literal text.    *)
(* A raw literal is returned untouched.                                    *)
(* Expressions are looked up in a table (the cases use a fixed set of      *)
(* expressions whose value text is known): codes[j] = [code, val, tick];   *)
(* tick = TRUE: evaluating it increments the side-effect counter.          *)
(* next = TRUE: its value is the number of such expressions evaluated so   *)
(* far in the literal, counted from the left (a digit): expressions are    *)
(* evaluated from left to right.                                           *)
(* Interp returns [out, ticks, exact]; exact = FALSE: the literal contains *)
(* an expression outside the table (the reference then only demands that   *)
(* the evaluation yields a string and terminates).                         *)
(***************************************************************************)
EXTENDS Integers, Sequences, FiniteSets

Open == <<123, 123>>
Close == <<125, 125>>

\* first index >= from at which pat occurs in s (0 = none)
RECURSIVE Find(_, _, _)
Find(s, pat, from) ==
  IF from + Len(pat) - 1 > Len(s) THEN 0
  ELSE IF SubSeq(s, from, from + Len(pat) - 1) = pat THEN from ELSE Find(s, pat, from + 1)

CodeIdx(codes, c) == IF \E j \in 1..Len(codes) : codes[j].code = c
                     THEN CHOOSE j \in 1..Len(codes) : codes[j].code = c ELSE 0

RECURSIVE Scan(_, _, _, _)
Scan(s, from, codes, acc) ==
  LET o == Find(s, Open, from) IN
  IF o = 0 THEN [out |-> acc.out \o SubSeq(s, from, Len(s)), ticks |-> acc.ticks, exact |-> acc.exact]
  ELSE LET c == Find(s, Close, o + 2) IN
       IF c = 0 THEN [out |-> acc.out \o SubSeq(s, from, Len(s)), ticks |-> acc.ticks, exact |-> acc.exact]
       ELSE LET code == SubSeq(s, o + 2, c - 1)
                j == CodeIdx(codes, code)
                isNext == j # 0 /\ codes[j].next
                val == IF j = 0 THEN <<>> ELSE IF isNext THEN <<48 + acc.nexts + 1>> ELSE codes[j].val IN
            Scan(s, c + 2, codes,
                 [out |-> acc.out \o SubSeq(s, from, o - 1) \o val,
                  ticks |-> acc.ticks + (IF j # 0 /\ codes[j].tick THEN 1 ELSE 0),
                  nexts |-> acc.nexts + (IF isNext THEN 1 ELSE 0),
                  exact |-> acc.exact /\ j # 0 /\ acc.nexts < 8])

Interp(lit, raw, codes) ==
  IF raw THEN [out |-> lit, ticks |-> 0, exact |-> TRUE]
  ELSE Scan(lit, 1, codes, [out |-> <<>>, ticks |-> 0, nexts |-> 0, exact |-> TRUE])
=============================================================================
