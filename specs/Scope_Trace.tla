------------------------------ MODULE Scope_Trace ------------------------------
(***************************************************************************)
(* Validation of recorded program runs against the reference semantics of  *)
(* names, functions and containers (C05).  A record: the abstract program, *)
(* the marker log of the real interpreter (each marker shows a value:      *)
(* number, string, NULL, function, or the length of a container) and how   *)
(* the run ended.  Clauses (result lists 10*i + k):                        *)
(*  1 the marker log is the log of the reference                           *)
(*  2 the run ends the same way (normally / with a runtime error)          *)
(*  3 no process-level fault                                               *)
(***************************************************************************)
EXTENDS Scopes, TLC, Json, IOUtils

Trace == ndJsonDeserialize(IOEnv.VERIF_TRACE)
VARIABLES i, bad
vars == <<i, bad>>
Init == i = 1 /\ bad = <<>>

Next ==
  /\ i <= Len(Trace) /\ i' = i + 1
  /\ LET e == Trace[i]
         r == Run(e.prog) IN
     bad' = bad \o (IF e.fault # "" THEN <<10 * i + 3>>
                    ELSE (IF e.log = r.st.log THEN <<>> ELSE <<10 * i + 1>>)
                      \o (IF (r.sig = "error") = (e.res = "error") THEN <<>> ELSE <<10 * i + 2>>))
Spec == Init /\ [][Next]_vars
Report == (i = Len(Trace) + 1) => PrintT(<<"TRACE-RESULT", Len(Trace), ToJson(bad)>>)
=============================================================================
