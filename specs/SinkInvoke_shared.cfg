SPECIFICATION Spec
CONSTANTS
 Inv <- MC_Inv
 SinkOf <- MC_SinkOf
 Out <- MC_Out
 Variant = "shared"
INVARIANTS ExportBad OwnOutcome
CHECK_DEADLOCK FALSE
