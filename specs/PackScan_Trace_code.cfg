SPECIFICATION TSpec
CONSTANTS B1 <- EnvB1 B2 <- EnvB2 MLen <- EnvMLen Variant = "code"
CONSTANTS Lengths = {} Descs = {} ZLens = {}
CONSTANT Desc <- NoDesc
INVARIANT Report
CHECK_DEADLOCK FALSE
