------------------------------ MODULE PackScan ------------------------------
(***************************************************************************)
(* cli/tool/pack.go RunPackedBinary (C20): the scan for the archive marker *)
(* in a packed executable, with the real buffer geometry.                  *)
(*                                                                         *)
(* A packed file is  filler (the interpreter binary, L bytes) ++ marker    *)
(* (MLen bytes) ++ zip (zlen bytes).  The scanner only distinguishes '#'   *)
(* bytes from others and looks for the complete marker, so the content is  *)
(* described by where the '#' bytes are:                                   *)
(*   d.stride, d.from   a '#' at every position >= from which is a         *)
(*                      multiple of stride (0: none)                       *)
(*   d.singles          single '#' bytes in the filler                     *)
(*   d.partials         [pos, len]: the first len < MLen bytes of the      *)
(*                      marker written at pos (marker-like bytes)          *)
(*   d.zhash            '#' bytes of the zip (offsets into the zip)        *)
(* The filler never contains the complete marker (assumption of C20).      *)
(*                                                                         *)
(* One action per iteration of the scan loop; the hooks pack.block and     *)
(* pack.scanned of the real code log pos and the number of bytes read, so  *)
(* PackScan_Trace can replay recorded scans through these actions.         *)
(*                                                                         *)
(* Variant "found": the loop at the pinned commit - a block of B1 bytes is *)
(*   only examined when it contains a '#', then B2 more bytes are read and *)
(*   block + extension searched; the next block starts behind what was     *)
(*   read.  A marker across a block end is missed (or the index behind the *)
(*   marker is outside the buffers: crash).                                *)
(* Variant "code": the repaired loop - the last MLen-1 bytes of what was   *)
(*   searched are carried over and searched again with the next block.     *)
(***************************************************************************)
EXTENDS Integers, Sequences, FiniteSets, TLC

CONSTANTS B1, B2, MLen, Variant,
          Lengths,      \* filler lengths explored
          Descs,        \* names of the content descriptors explored
          Desc(_, _),   \* descriptor of a name for a filler length
          ZLens         \* zip lengths explored

VARIABLES L, d, zlen,   \* the file (fixed per behaviour)
          off,          \* read offset of the file
          pos,          \* the scanner's own position counter
          clen,         \* "code": number of carried-over bytes
          bufBase,      \* "found": file offset of the last full block read into buf (-1: none) - stale bytes
          pc,           \* "scan" | "scanned" | "done"
          found,
          outcome,      \* "" | "run" | "miss" | "panic"
          runAt         \* where the archive is read from when found

vars == <<L, d, zlen, off, pos, clen, bufBase, pc, found, outcome, runAt>>

PMin(a, b) == IF a < b THEN a ELSE b
PMax(a, b) == IF a > b THEN a ELSE b

\* '#' bytes of the marker "\n####ECALSRC####\n": offsets 1..4 and MLen-5..MLen-2
MarkerHash == (1..4) \cup ((MLen - 5)..(MLen - 2))

Size == L + MLen + zlen

\* is there a '#' in the file within [lo, hi)?
StrideHash(lo, hi) ==
  d.stride > 0 /\
  LET a == PMax(lo, d.from)
      first == ((a + d.stride - 1) \div d.stride) * d.stride
  IN first < PMin(hi, L)
HashIn(lo, hi) ==
  \/ StrideHash(lo, hi)
  \/ \E q \in d.singles : lo <= q /\ q < hi /\ q < L
  \/ \E p \in d.partials : \E k \in MarkerHash : k < p[2] /\ lo <= p[1] + k /\ p[1] + k < hi
  \/ \E k \in MarkerHash : lo <= L + k /\ L + k < hi
  \/ \E z \in d.zhash : z < zlen /\ lo <= L + MLen + z /\ L + MLen + z < hi

Init ==
  /\ L \in Lengths /\ zlen \in ZLens
  /\ \E n \in Descs : d = Desc(n, L)
  /\ off = 0 /\ pos = 0 /\ clen = 0 /\ bufBase = -1 /\ pc = "scan" /\ found = FALSE /\ outcome = "" /\ runAt = -1

\* ---- the loop at the pinned commit ------------------------------------------------------------------
FoundStep ==
  LET i == PMin(B1, Size - off) IN
  IF i = 0 THEN pc' = "scanned" /\ UNCHANGED <<off, pos, clen, bufBase, found, outcome, runAt>>
  ELSE
    LET stale == i < B1 /\ bufBase >= 0 /\ HashIn(bufBase + i, bufBase + B1)
        hash  == HashIn(off, off + i) \/ stale
        i2    == PMin(B2, Size - off - i)
        inWin == off <= L /\ L + MLen <= off + i + i2
        start == L - off + MLen
    IN IF hash /\ inWin
       THEN IF start >= B1 + B2
            THEN \* the byte behind the marker is looked at in the buffers: outside of them
                 /\ outcome' = "panic" /\ pc' = "done"
                 /\ UNCHANGED <<off, pos, clen, bufBase, found, runAt>>
            ELSE /\ found' = TRUE /\ pos' = pos + start /\ pc' = "scanned"
                 /\ UNCHANGED <<off, clen, bufBase, outcome, runAt>>
       ELSE /\ pos' = pos + i + (IF hash THEN i2 ELSE 0)
            /\ off' = off + i + (IF hash THEN i2 ELSE 0)
            /\ bufBase' = IF i = B1 THEN off ELSE bufBase
            /\ UNCHANGED <<clen, pc, found, outcome, runAt>>

\* ---- the repaired loop --------------------------------------------------------------------------------
CodeStep ==
  LET i == PMin(B1, Size - off) IN
  IF i = 0 THEN pc' = "scanned" /\ UNCHANGED <<off, pos, clen, bufBase, found, outcome, runAt>>
  ELSE
    LET lo == off - clen
        inWin == lo <= L /\ L + MLen <= off + i
    IN IF inWin
       THEN /\ found' = TRUE /\ pos' = pos - clen + (L - lo) + MLen /\ pc' = "scanned"
            /\ UNCHANGED <<off, clen, bufBase, outcome, runAt>>
       ELSE /\ pos' = pos + i /\ off' = off + i
            /\ clen' = PMin(MLen - 1, clen + i)
            /\ UNCHANGED <<bufBase, pc, found, outcome, runAt>>

Step == pc = "scan" /\ (IF Variant = "found" THEN FoundStep ELSE CodeStep) /\ UNCHANGED <<L, d, zlen>>

\* after the loop: the archive is read from pos if the marker was found, otherwise the function returns and the
\* ordinary command line is processed
FinishEffect ==
  /\ pc' = "done"
  /\ IF found THEN outcome' = "run" /\ runAt' = pos ELSE outcome' = "miss" /\ runAt' = runAt
  /\ UNCHANGED <<L, d, zlen, off, pos, clen, bufBase, found>>
Finish == pc = "scanned" /\ FinishEffect

Next == Step \/ Finish
Spec == Init /\ [][Next]_vars

\* ---- properties -----------------------------------------------------------------------------------------
TypeOK == pc \in {"scan", "scanned", "done"} /\ outcome \in {"", "run", "miss", "panic"} /\ off >= 0 /\ pos >= 0
\* C20: the archive is always found, at the byte behind the marker
AlwaysRuns == pc = "done" => outcome = "run" /\ runAt = L + MLen
\* the position counter is the read offset while nothing is found (what the section reader relies on)
PosIsOffset == pc = "scan" => pos = off
=============================================================================
