SPECIFICATION TSpec
INVARIANT Report
CHECK_DEADLOCK FALSE
