--------------------------- MODULE DebugCmd_Trace ---------------------------
(***************************************************************************)
(* Direction B for C16: command lines given to the real debugger (case by  *)
(* case and in random sequences, in every state class) with what came      *)
(* back.  Record: st (state class the harness established or followed),    *)
(* c, a (the line), class ("value" | "error" | "fault"), json (the result  *)
(* could be encoded), alive (a following break / rmbreak / status were     *)
(* answered within the bound, so no lock was left behind).                 *)
(* bad collects 10*i + c:                                                  *)
(*   1 fault: the command handler panicked or did not return               *)
(*   2 the result is not JSON-encodable                                    *)
(*   3 the debugger did not answer the following commands                  *)
(*   4 the answer class differs from the model's (drift)                   *)
(***************************************************************************)
EXTENDS DebugCmd, Json, IOUtils
Trace == ndJsonDeserialize(IOEnv.VERIF_TRACE)
VARIABLES i, bad
tvars == <<i, bad>>
Codes(r, n) ==
  (IF r.class = "fault" THEN <<10 * n + 1>> ELSE <<>>)
  \o (IF r.class # "fault" /\ ~r.json THEN <<10 * n + 2>> ELSE <<>>)
  \o (IF ~r.alive THEN <<10 * n + 3>> ELSE <<>>)
  \o (IF r.class # "fault" /\ r.st \in States /\ r.c \in Commands /\ InVectors(r.c, r.a)
          /\ Expect(r.st, r.c, r.a) \notin {"any", r.class} THEN <<10 * n + 4>> ELSE <<>>)
TInit == i = 1 /\ bad = <<>>
TNext == i <= Len(Trace) /\ i' = i + 1 /\ bad' = bad \o Codes(Trace[i], i)
TSpec == TInit /\ [][TNext]_tvars
Report == (i = Len(Trace) + 1) => PrintT(<<"TRACE-RESULT", Len(Trace), ToJson(bad)>>)
=============================================================================
