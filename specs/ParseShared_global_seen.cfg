SPECIFICATION Spec
CONSTANTS
 Parsers <- MC_Parsers
 Script <- MC_Script
 Variant = "global"
INVARIANTS ExportBadSeen SameAsAlone
CHECK_DEADLOCK FALSE
