------------------------------ MODULE Cascade ------------------------------
(***************************************************************************)
(* Implementation-level model of one event cascade on the concurrent       *)
(* engine: engine/processor.go AddEventAndWait/AddEvent, taskqueue.go      *)
(* Task.Run/HandleError, monitor.go descendantCreated/Finished and         *)
(* pubsub/eventpump.go PostEvent (observer snapshot, callbacks which       *)
(* remove all observers of the root).                                      *)
(*                                                                         *)
(* A cascade is a finite tree of events (constants): event e > 1 is added  *)
(* by rule AddedBy[e] of event Parent[e]; Trig[e] tells whether it         *)
(* triggers a rule (otherwise its monitor is skipped); event e runs        *)
(* NRules[e] rule actions in sequence; Fails[e] is the set of failing      *)
(* rule indices.  Event 1 is the root, added with wait semantics.          *)
(*                                                                         *)
(* Variant "code" is the protocol of the code; the other variants are      *)
(* plausible wrong protocols the checker must refute (self-test):          *)
(*   "post-early"   notification when unfinished <= 1                      *)
(*   "finish-first" Finish before SetErrors in HandleError                 *)
(*   "allerrors-asserts"  the code as found: AllErrors() asserts that every *)
(*                  monitor with errors is finished, and a root monitor     *)
(*                  error observer (engine.md) calls it from HandleError    *)
(***************************************************************************)
EXTENDS Integers, Sequences, FiniteSets, TLC

CONSTANTS K, Parent, AddedBy, Trig, NRules, Fails, FailFast, Workers, Variant

E == 1..K
Kids(e, j) == {c \in E : Parent[c] = e /\ AddedBy[c] = j}

VARIABLES mon,        \* [E -> "none" | "new" | "active" | "done"]
          unfinished, \* counter of the root monitor
          posted,     \* number of finished notifications
          errset,     \* monitors with errors attached (rm.errors)
          tq,         \* queued events of this root
          tqobs, obs, \* observers of (finished, root): tq assertion observer present?; obs \subseteq {"wait","handler"}
          wgdone, handler, \* WaitGroup released; finish handler invocations
          wpc,        \* waiter: "init" | "observing" | "added" | "returned"
          pc, cur, rule, failed, kidsleft, snap, fin,  \* per worker
          ended,      \* rule actions that have returned: set of <<e, j>>
          report,     \* what the waiter read from AllErrors() at return
          fault       \* an assertion of the engine failed

vars == <<mon, unfinished, posted, errset, tq, tqobs, obs, wgdone, handler, wpc,
          pc, cur, rule, failed, kidsleft, snap, fin, ended, report, fault>>

Init == /\ mon = [e \in E |-> "none"] /\ unfinished = 1 /\ posted = 0 /\ errset = {} /\ tq = {}
        /\ tqobs = FALSE /\ obs = {} /\ wgdone = FALSE /\ handler = 0 /\ wpc = "init"
        /\ pc = [w \in Workers |-> "idle"] /\ cur = [w \in Workers |-> 0] /\ rule = [w \in Workers |-> 0]
        /\ failed = [w \in Workers |-> {}] /\ kidsleft = [w \in Workers |-> {}]
        /\ snap = [w \in Workers |-> {}] /\ fin = [w \in Workers |-> FALSE]
        /\ ended = {} /\ report = {} /\ fault = FALSE

(* ---- the waiting caller: AddEventAndWait(root event) --------------------------------- *)
\* AddObserver(finished, root, wait callback)
\* (variant "observer-late": the caller registers for the end only after the event has been added - a cascade which is
\* over by then never tells it)
Late == Variant = "observer-late"
C_Observe == /\ wpc = (IF Late THEN "added0" ELSE "init") /\ wpc' = (IF Late THEN "added" ELSE "observing") /\ obs' = obs \cup {"wait"}
             /\ UNCHANGED <<mon, unfinished, posted, errset, tq, tqobs, wgdone, handler, pc, cur, rule, failed, kidsleft, snap, fin, ended, report, fault>>

\* AddEvent(root event): handler observer, Activate, AddTask (Push registers the queue observer)
C_Add == /\ wpc = (IF Late THEN "init" ELSE "observing") /\ wpc' = (IF Late THEN "added0" ELSE "added")
         /\ obs' = obs \cup {"handler"}
         /\ mon' = [mon EXCEPT ![1] = "active"]
         /\ tq' = tq \cup {1} /\ tqobs' = TRUE
         /\ UNCHANGED <<unfinished, posted, errset, wgdone, handler, pc, cur, rule, failed, kidsleft, snap, fin, ended, report, fault>>

\* wg.Wait() returns; the caller reads the error report
C_Return == /\ wpc = "added" /\ wgdone /\ wpc' = "returned"
            /\ report' = errset
            /\ fault' = (fault \/ (Variant = "allerrors-asserts" /\ \E e \in errset : mon[e] # "done"))
            /\ UNCHANGED <<mon, unfinished, posted, errset, tq, tqobs, obs, wgdone, handler, pc, cur, rule, failed, kidsleft, snap, fin, ended>>

(* ---- workers -------------------------------------------------------------------------- *)
Idle(w) == pc[w] = "idle"

\* getTask: Pop
W_Pop(w) == /\ Idle(w) /\ tq # {}
            /\ \E e \in tq : /\ tq' = tq \ {e} /\ cur' = [cur EXCEPT ![w] = e]
            /\ rule' = [rule EXCEPT ![w] = 1] /\ failed' = [failed EXCEPT ![w] = {}]
            /\ pc' = [pc EXCEPT ![w] = "rules"]
            /\ kidsleft' = [kidsleft EXCEPT ![w] = Kids(cur'[w], 1)]
            /\ UNCHANGED <<mon, unfinished, posted, errset, tqobs, obs, wgdone, handler, wpc, snap, fin, ended, report, fault>>

\* inside a rule action: NewChildMonitor + AddEvent for one child
W_AddChild(w) ==
  /\ pc[w] = "rules" /\ kidsleft[w] # {}
  /\ \E c \in kidsleft[w] :
       /\ kidsleft' = [kidsleft EXCEPT ![w] = @ \ {c}]
       /\ IF Trig[c]
            THEN /\ mon' = [mon EXCEPT ![c] = "active"] /\ tq' = tq \cup {c}
                 /\ unfinished' = unfinished + 1
                 /\ tqobs' = (tqobs \/ TRUE)
            ELSE \* skipped: created and finished at once by the adding thread
                 /\ mon' = [mon EXCEPT ![c] = "done"] /\ UNCHANGED <<tq, tqobs>>
                 /\ unfinished' = unfinished
  /\ UNCHANGED <<posted, errset, obs, wgdone, handler, wpc, pc, cur, rule, failed, snap, fin, ended, report, fault>>

\* the current rule action returns; next rule or end of ProcessEvent
W_RuleEnd(w) ==
  /\ pc[w] = "rules" /\ kidsleft[w] = {}
  /\ LET e == cur[w]  j == rule[w]
         f == IF j \in Fails[e] THEN failed[w] \cup {j} ELSE failed[w]
         stop == j >= NRules[e] \/ (FailFast /\ f # {}) IN
     /\ ended' = IF j <= NRules[e] THEN ended \cup {<<e, j>>} ELSE ended
     /\ failed' = [failed EXCEPT ![w] = f]
     /\ IF stop
          THEN /\ pc' = [pc EXCEPT ![w] = IF f # {} THEN (IF Variant = "finish-first" THEN "finish" ELSE "seterr") ELSE "finish"]
               /\ UNCHANGED <<rule, kidsleft>>
          ELSE /\ rule' = [rule EXCEPT ![w] = j + 1]
               /\ kidsleft' = [kidsleft EXCEPT ![w] = Kids(e, j + 1)]
               /\ UNCHANGED pc
  /\ UNCHANGED <<mon, unfinished, posted, errset, tq, tqobs, obs, wgdone, handler, wpc, cur, snap, fin, report, fault>>

\* HandleError: SetErrors
W_SetErr(w) ==
  /\ pc[w] = "seterr"
  /\ errset' = errset \cup {cur[w]}
  /\ pc' = [pc EXCEPT ![w] = IF Variant = "finish-first" THEN "notify" ELSE "finish"]
  /\ UNCHANGED <<mon, unfinished, posted, tq, tqobs, obs, wgdone, handler, wpc, cur, rule, failed, kidsleft, snap, fin, ended, report, fault>>

\* Finish: descendantFinished under the root lock
W_Finish(w) ==
  /\ pc[w] = "finish"
  /\ mon' = [mon EXCEPT ![cur[w]] = "done"]
  /\ unfinished' = unfinished - 1
  /\ fin' = [fin EXCEPT ![w] = IF Variant = "post-early" THEN unfinished - 1 <= 1 ELSE unfinished - 1 = 0]
  /\ pc' = [pc EXCEPT ![w] = "unlocked"]
  /\ UNCHANGED <<posted, errset, tq, tqobs, obs, wgdone, handler, wpc, cur, rule, failed, kidsleft, snap, ended, report, fault>>

\* after the unlock: PostEvent takes a snapshot of the observers (or nothing to post)
W_Unlocked(w) ==
  /\ pc[w] = "unlocked"
  /\ IF fin[w]
       THEN /\ posted' = posted + 1
            /\ snap' = [snap EXCEPT ![w] = obs \cup (IF tqobs THEN {"tq"} ELSE {})]
            /\ pc' = [pc EXCEPT ![w] = "posting"]
       ELSE /\ pc' = [pc EXCEPT ![w] = IF failed[w] # {} THEN (IF Variant = "finish-first" THEN "seterr" ELSE "notify") ELSE "idle"]
            /\ UNCHANGED <<posted, snap>>
  /\ UNCHANGED <<mon, unfinished, errset, tq, tqobs, obs, wgdone, handler, wpc, cur, rule, failed, kidsleft, fin, ended, report, fault>>

\* one observer callback; each removes all observers of the root
W_Callback(w) ==
  /\ pc[w] = "posting"
  /\ IF snap[w] = {}
       THEN /\ pc' = [pc EXCEPT ![w] = IF failed[w] # {} THEN (IF Variant = "finish-first" THEN "seterr" ELSE "notify") ELSE "idle"]
            /\ UNCHANGED <<snap, obs, tqobs, wgdone, handler, fault>>
       ELSE \E o \in snap[w] :
            /\ snap' = [snap EXCEPT ![w] = @ \ {o}]
            /\ obs' = {} /\ tqobs' = FALSE
            /\ wgdone' = (wgdone \/ o = "wait")
            /\ handler' = IF o = "handler" THEN handler + 1 ELSE handler
            /\ fault' = (fault \/ (o = "tq" /\ tq # {}))          \* "Finished monitor left events behind"
            /\ UNCHANGED pc
  /\ UNCHANGED <<mon, unfinished, posted, errset, tq, wpc, cur, rule, failed, kidsleft, fin, ended, report>>

\* notifyRootMonitorErrors: the error observer reads AllErrors() (asserts finished monitors)
W_Notify(w) ==
  /\ pc[w] = "notify"
  /\ fault' = (fault \/ (Variant = "allerrors-asserts" /\ \E e \in errset : mon[e] # "done"))
  /\ pc' = [pc EXCEPT ![w] = "idle"]
  /\ UNCHANGED <<mon, unfinished, posted, errset, tq, tqobs, obs, wgdone, handler, wpc, cur, rule, failed, kidsleft, snap, fin, ended, report>>

Next == \/ C_Observe \/ C_Add \/ C_Return
        \/ \E w \in Workers : W_Pop(w) \/ W_AddChild(w) \/ W_RuleEnd(w) \/ W_SetErr(w) \/ W_Finish(w)
                              \/ W_Unlocked(w) \/ W_Callback(w) \/ W_Notify(w)

Spec == Init /\ [][Next]_vars
FairSpec == Spec /\ WF_vars(Next)

(* ---- property level (C02) ------------------------------------------------------------------- *)
Handed == {e \in E : mon[e] # "none"}
\* rule actions that run for e: all, or up to the first failing one under fail-fast
MustRun(e) == IF ~ Trig[e] THEN {}
              ELSE {j \in 1..NRules[e] : ~ FailFast \/ \A i \in 1..(j - 1) : i \notin Fails[e]}
ExpectedErrors == {e \in E : Trig[e] /\ mon[e] # "none" /\ (MustRun(e) \cap Fails[e]) # {}}

WaitAfterCascade == wpc = "returned" =>
     /\ \A e \in Handed : mon[e] = "done"
     /\ \A e \in Handed : \A j \in MustRun(e) : <<e, j>> \in ended
ReportExact == wpc = "returned" => report = ExpectedErrors
PostedOnce == posted <= 1
PostedAtZero == posted = 1 => unfinished = 0
HandlerOnce == handler <= 1
NoFault == ~ fault
Done == wpc = "returned" /\ \A w \in Workers : pc[w] = "idle"
HandlerAtEnd == Done => handler = 1
\* a state without successor is the end of the cascade, never a stuck waiter
NoStuck == (~ ENABLED Next) => Done
Returns == <>(wpc = "returned")
=============================================================================
