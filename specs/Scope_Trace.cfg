SPECIFICATION Spec
CONSTANT MaxDepth = 6
INVARIANT Report
CHECK_DEADLOCK FALSE
