---------------------------- MODULE PoolP_Trace ----------------------------
(***************************************************************************)
(* Property-level specification of the thread pool (C09) and validation of *)
(* recorded executions of the real pool against it.                        *)
(*                                                                         *)
(* The abstract pool knows only what a user can observe: which tasks were  *)
(* accepted (the Push became visible), started, ended; when WaitAll /      *)
(* JoinAll / SetWorkerCount were called and returned; and the final        *)
(* (permanently quiescent or finished) state of a run.  A recorded run is  *)
(* accepted iff every event is allowed in the abstract state it meets.     *)
(* Many runs are concatenated in one file, separated by "reset" events;    *)
(* a run with a rejected event is listed in `bad` (index of the event) and *)
(* the rest of that run is skipped, so one failure never hides the others. *)
(***************************************************************************)
EXTENDS Integers, Sequences, FiniteSets, TLC, Json, IOUtils

Trace == ndJsonDeserialize(IOEnv.VERIF_TRACE)

VARIABLES i,          \* next event
          accepted, started, ended,
          wa,         \* [client -> BOOLEAN]: a WaitAll call in progress saw an idle moment
          ja,         \* [client -> BOOLEAN]: a JoinAll call in progress saw "all done"
          skip,       \* the current run was rejected: ignore until the next reset
          bad         \* indices of rejected events

vars == <<i, accepted, started, ended, wa, ja, skip, bad>>

Idle == accepted = ended
Upd(f) == [c \in DOMAIN f |-> f[c] \/ accepted' = ended']

Init == /\ i = 1 /\ accepted = {} /\ started = {} /\ ended = {}
        /\ wa = <<>> /\ ja = <<>> /\ skip = FALSE /\ bad = <<>>

Fresh == /\ accepted' = {} /\ started' = {} /\ ended' = {} /\ wa' = <<>> /\ ja' = <<>>

\* Ok(e): the event is allowed by the property in the current abstract state
Ok(e) ==
  CASE e.ev = "accept"  -> e.t \notin accepted
    [] e.ev = "start"   -> e.t \in accepted /\ e.t \notin started          \* no phantom, at most once
    [] e.ev = "end"     -> e.t \in started /\ e.t \notin ended
    [] e.ev = "wa_call" -> TRUE
    [] e.ev = "wa_ret"  -> e.wc = 0 \/ (e.c \in DOMAIN wa /\ wa[e.c])       \* an idle moment existed during the call
    [] e.ev = "ja_call" -> TRUE
    [] e.ev = "ja_ret"  -> e.c \in DOMAIN ja /\ ja[e.c] /\ e.wc = 0         \* all done, no worker left
    [] e.ev = "set_ret" -> (e.wait => e.wc = e.n)                           \* waited resize reached the count
    \* end of a run: everything that could happen has happened.  With a worker alive (or after a
    \* join) every accepted task was started; the worker count equals the last requested one.
    [] e.ev = "final"   -> /\ ((e.wc > 0 \/ e.joined) => accepted = started)
                           /\ started = ended
                           /\ (e.target >= 0 => e.wc = e.target)
                           /\ ~ e.hung                                     \* no client call blocked for ever
    [] OTHER -> FALSE

With(f, c, v) == [x \in DOMAIN f \cup {c} |-> IF x = c THEN v ELSE f[x]]
Without(f, c) == [x \in DOMAIN f \ {c} |-> f[x]]

Apply(e) ==
  /\ accepted' = IF e.ev = "accept" THEN accepted \cup {e.t} ELSE accepted
  /\ started'  = IF e.ev = "start" THEN started \cup {e.t} ELSE started
  /\ ended'    = IF e.ev = "end" THEN ended \cup {e.t} ELSE ended
  /\ wa' = IF e.ev = "wa_call" THEN With(wa, e.c, accepted = ended)
           ELSE IF e.ev = "wa_ret" THEN Without(wa, e.c) ELSE Upd(wa)
  /\ ja' = IF e.ev = "ja_call" THEN With(ja, e.c, accepted = ended)
           ELSE IF e.ev = "ja_ret" THEN Without(ja, e.c) ELSE Upd(ja)

Next ==
  /\ i <= Len(Trace)
  /\ i' = i + 1
  /\ LET e == Trace[i] IN
     IF e.ev = "reset" THEN /\ Fresh /\ skip' = FALSE /\ UNCHANGED bad
     ELSE IF skip THEN UNCHANGED <<accepted, started, ended, wa, ja, skip, bad>>
     ELSE IF Ok(e) THEN /\ Apply(e) /\ UNCHANGED <<skip, bad>>
     ELSE /\ bad' = Append(bad, i) /\ skip' = TRUE /\ UNCHANGED <<accepted, started, ended, wa, ja>>

Spec == Init /\ [][Next]_vars

\* printed once at the end of the trace; the driver reads the rejected indices
Report == (i = Len(Trace) + 1) => PrintT(<<"TRACE-RESULT", Len(Trace), ToJson(bad)>>)
=============================================================================
