---- MODULE MCSinkInvoke ----
EXTENDS SinkInvoke
MC_Inv == {"A", "B", "C"}
MC_SinkOf == [i \in MC_Inv |-> IF i = "C" THEN "s2" ELSE "s1"]
MC_Out == [i \in MC_Inv |-> IF i = "A" THEN "fail" ELSE "ok"]
====
