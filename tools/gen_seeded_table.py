#!/usr/bin/env python3
# regenerates the table of seeded changes in DESIGN.md (between the markers) from seeded/*/meta.json
import json,glob,re
rows=[]
for d in sorted(glob.glob('/verif/seeded/*/meta.json')):
    m=json.load(open(d)); ch=m.get('checks',{})
    first=ch.get('quick',{}).get('detected') or ch.get('thorough',{}).get('detected')
    after=ch.get('quick_after_strengthening',{}).get('detected')
    hist=m.get('history') or ''
    if hist and ('missed by the first' in hist) :
        first_s='no'; now='yes' if (first or after) else 'no'
    else:
        first_s='yes' if first else 'no'; now='yes' if (first or after) else 'no'
    note=(m.get('needs_to_manifest') or '')
    if hist: note=(note+' — ' if note else '')+hist
    if not note: note='see seeded/%s/notes.md'%m['id']
    rows.append(f"| {m['id']} | {m.get('property')} | {first_s} | {now} | {note.replace('|','/')[:420]} |")
tab="| seeded change | property | first | now | what it needs to manifest / what was strengthened |\n|---|---|---|---|---|\n"+"\n".join(rows)+"\n"
s=open('/verif/DESIGN.md').read()
i=s.index('| seeded change | property | first | now |')
j=s.index('\nC09-a-m3 is kept as a record only')
s=s[:i]+tab+s[j:]
open('/verif/DESIGN.md','w').write(s)
print(len(rows),'rows')
