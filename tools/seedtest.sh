#!/bin/bash
# usage: seedtest.sh <seed-id> <src-dir with patch.diff + demo_test.go> <demo package dir (relative to repo)> <property> [check tier]
# 1. confirms in a scratch worktree: demo passes on the clean tree, suite passes with the patch, demo fails with the patch
# 2. applies the patch to /repo, runs the property check, reverts
# 3. stores everything under /verif/seeded/<seed-id>/
set -u
ID=$1; SRC=$2; PKG=$3; PROP=$4; TIER=${5:-quick}
export GOFLAGS=-mod=mod GOPROXY=off GOSUMDB=off GOTOOLCHAIN=local
OUT=/verif/seeded/$ID
mkdir -p $OUT
cp $SRC/patch.diff $OUT/patch.diff
for f in $SRC/demo_test.go $SRC/notes.md; do [ -f $f ] && cp $f $OUT/; done
WT=/tmp/seedwt-$ID
git -C /repo worktree remove --force $WT >/dev/null 2>&1
git -C /repo worktree add -q $WT HEAD >/dev/null 2>&1
cp $SRC/demo_test.go $WT/$PKG/zz_demo_test.go
DEMO_RUN=$(grep -o 'func Test[A-Za-z0-9_]*' $SRC/demo_test.go | sed 's/func //' | paste -sd'|')
( cd $WT && timeout 300 go test -mod=mod -vet=off -count=1 -run "^($DEMO_RUN)\$" ./$PKG/ > $OUT/demo_clean.log 2>&1 ); DC=$?
( cd $WT && git apply $OUT/patch.diff ) ; AP=$?
( cd $WT && rm -f $PKG/zz_demo_test.go && timeout 600 go test -mod=mod -vet=off -count=1 ./... > $OUT/suite_mut.log 2>&1 ); SU=$?
cp $SRC/demo_test.go $WT/$PKG/zz_demo_test.go
( cd $WT && timeout 300 go test -mod=mod -vet=off -count=1 -run "^($DEMO_RUN)\$" ./$PKG/ > $OUT/demo_mut.log 2>&1 ); DM=$?
git -C /repo worktree remove --force $WT >/dev/null 2>&1
# now the check
cp /verif/evidence/$PROP.json /tmp/seed-evidence-$ID.json 2>/dev/null
git -C /repo apply $OUT/patch.diff; AP2=$?
( cd /verif && timeout 3000 ./check $PROP $TIER > $OUT/check_$TIER.log 2>&1 ); CK=$?
git -C /repo checkout -- . ; git -C /repo status --short | grep -v '^??' 
cp /verif/evidence/$PROP.json $OUT/evidence_mut.json 2>/dev/null
[ -f /tmp/seed-evidence-$ID.json ] && mv /tmp/seed-evidence-$ID.json /verif/evidence/$PROP.json
echo "seed=$ID prop=$PROP apply=$AP demo_clean_exit=$DC suite_mut_exit=$SU demo_mut_exit=$DM check_${TIER}_exit=$CK"
python3 - <<PY
import json,os
p='$OUT/meta.json'
m=json.load(open(p)) if os.path.exists(p) else {}
m.update({"id":"$ID","property":"$PROP","demo_package":"$PKG","patch_applies":$AP==0,
 "demo_passes_on_clean_tree":$DC==0,"suite_passes_with_patch":$SU==0,"demo_fails_with_patch":$DM!=0})
m.setdefault("checks",{})["$TIER"]={"exit":$CK,"detected":$CK==1}
json.dump(m,open(p,'w'),indent=1)
PY
