#!/usr/bin/env python3
# regenerates the tables of repaired defects and known findings in DESIGN.md §0.5 from known_findings.json
import json,subprocess
k=json.load(open('/verif/known_findings.json'))
fixed=[e for e in k['entries'] if e['kind']=='fixed']; known=[e for e in k['entries'] if e['kind']=='known']
nfix=len([l for l in subprocess.check_output(['git','-C','/repo','log','--format=%s']).decode().splitlines() if l.startswith('fix:')])
t="| commit | property | what failed on the pinned tree |\n|---|---|---|\n"+"\n".join(f"| {e.get('commit','')} | {e['property']} | {e['what'].replace('|','/')[:300]} |" for e in fixed)+"\n"
kn="\n".join(f"* **{e['property']}** `{e['signature']}` — {e['what'][:330]}" for e in known)+"\n"
s=open('/verif/DESIGN.md').read()
i=s.index('| commit | property | what failed on the pinned tree |'); j=s.index('\nKnown findings (not repaired;')
s=s[:i]+t+s[j:]
i=s.index('exit 0; any other violation of the same property is still reported):\n\n')+len('exit 0; any other violation of the same property is still reported):\n\n'); j=s.index('\nPre-existing flakiness of the pinned suite')
s=s[:i]+kn+s[j:]
import re
s=re.sub(r"The pinned tree violated 17 of the 20 properties\. \d+ `fix:` commits", f"The pinned tree violated 17 of the 20 properties. {nfix} `fix:` commits", s)
open('/verif/DESIGN.md','w').write(s)
print(nfix,len(fixed),len(known))
