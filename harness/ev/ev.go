// Package ev collects what a check run covered, applies the verdict policy
// (VIOLATION / KNOWN-FINDING / DRIFT / inconclusive) and writes the evidence
// file /verif/evidence/<id>.json.
package ev

import (
	"crypto/sha1"
	"encoding/hex"
	"encoding/json"
	"fmt"
	"os"
	"path/filepath"
	"sort"
	"strconv"
	"strings"
	"sync"
	"time"
)

// Root is /verif (overridable for tests).
var Root = "/verif"

// KnownEntry is one line of known_findings.json.
type KnownEntry struct {
	Kind      string `json:"kind"` // "known" | "fixed"
	Property  string `json:"property"`
	Signature string `json:"signature,omitempty"`
	Commit    string `json:"commit,omitempty"`
	What      string `json:"what"`
	Line      string `json:"line,omitempty"`
}

// KnownFile is known_findings.json.
type KnownFile struct {
	Entries []KnownEntry `json:"entries"`
}

// Run is one invocation of one check.
type Run struct {
	mu          sync.Mutex
	Prop        string
	Tier        string
	Seed        int64
	Level       string
	start       time.Time
	Coverage    map[string]interface{}
	Assumptions []string
	violations  int
	knownHits   map[string]int
	drift       int
	inconcl     []string
	samples     []interface{}
	known       []KnownEntry
	distinct    map[string]bool
	evals       int64
	states      int64
	transitions int64
	traces      int64
	configs     []string
	Rule        string
	sigCount    map[string]int
}

// Start begins a run; tier and seed come from the command line / environment.
func Start(prop, tier string, seed int64) *Run {
	r := &Run{Prop: prop, Tier: tier, Seed: seed, Level: "model_checking", start: time.Now(),
		Coverage: map[string]interface{}{}, knownHits: map[string]int{}, distinct: map[string]bool{}}
	if b, err := os.ReadFile(filepath.Join(Root, "known_findings.json")); err == nil {
		var kf KnownFile
		if json.Unmarshal(b, &kf) == nil {
			for _, e := range kf.Entries {
				if e.Kind == "known" && e.Property == prop {
					r.known = append(r.known, e)
				}
			}
		}
	}
	return r
}

// SeedFromEnv reads VERIF_SEED (default 1).
func SeedFromEnv() int64 {
	if s := os.Getenv("VERIF_SEED"); s != "" {
		if v, err := strconv.ParseInt(s, 10, 64); err == nil {
			return v
		}
	}
	return 1
}

// Logf prints a progress line.
func (r *Run) Logf(format string, a ...interface{}) {
	fmt.Printf("[%s %s +%.1fs] %s\n", r.Prop, r.Tier, time.Since(r.start).Seconds(), fmt.Sprintf(format, a...))
}

// Violation reports a failure of the property observed on the real code.
// sig is the canonical signature (compared with known_findings.json), replay
// is any JSON-encodable value that lets the failure be re-executed.
func (r *Run) Violation(sig, msg string, replay interface{}) {
	r.mu.Lock()
	defer r.mu.Unlock()
	for _, k := range r.known {
		if k.Signature == sig {
			if r.knownHits[sig] == 0 {
				fmt.Printf("KNOWN-FINDING: property=%s %s (%s)\n", r.Prop, k.What, sig)
			}
			r.knownHits[sig]++
			return
		}
	}
	r.violations++
	if r.sigCount == nil {
		r.sigCount = map[string]int{}
	}
	r.sigCount[sig]++
	// every new kind of failure is shown (and gets a replay file); repetitions of a kind only three times
	if r.sigCount[sig] > 3 || len(r.sigCount) > 60 {
		return
	}
	b, _ := json.MarshalIndent(map[string]interface{}{"property": r.Prop, "signature": sig,
		"message": msg, "seed": r.Seed, "tier": r.Tier, "replay": replay}, "", " ")
	h := sha1.Sum(b)
	dir := filepath.Join(Root, "replays", r.Prop)
	os.MkdirAll(dir, 0o755)
	path := filepath.Join(dir, hex.EncodeToString(h[:6])+".json")
	os.WriteFile(path, b, 0o644)
	fmt.Printf("VIOLATION property=%s replay=%s\n", r.Prop, path)
	fmt.Printf("  signature: %s\n  %s\n", sig, msg)
}

// Violations returns the number of (unknown) violations so far.
func (r *Run) Violations() int {
	r.mu.Lock()
	defer r.mu.Unlock()
	return r.violations
}

// Drift reports that the implementation-level model no longer describes the
// code although the property-level oracle holds. Never a verdict.
func (r *Run) Drift(msg string) {
	r.mu.Lock()
	r.drift++
	n := r.drift
	r.mu.Unlock()
	if n <= 10 {
		fmt.Printf("DRIFT property=%s %s\n", r.Prop, msg)
	}
}

// Inconclusive records a tool failure / timeout: exit 2, never a violation.
func (r *Run) Inconclusive(msg string) {
	r.mu.Lock()
	r.inconcl = append(r.inconcl, msg)
	r.mu.Unlock()
	fmt.Printf("INCONCLUSIVE property=%s %s\n", r.Prop, msg)
}

// Sample keeps an example case for the evidence file (at most 6 are kept).
func (r *Run) Sample(v interface{}) {
	r.mu.Lock()
	if len(r.samples) < 6 {
		r.samples = append(r.samples, v)
	}
	r.mu.Unlock()
}

// Case counts one evaluated case; key identifies it for distinctness and
// nontrivial says whether it counts as non-trivial by the check's rule.
func (r *Run) Case(key string, nontrivial bool) {
	r.mu.Lock()
	r.evals++
	if nontrivial {
		if len(key) > 80 {
			h := sha1.Sum([]byte(key))
			key = hex.EncodeToString(h[:10])
		}
		r.distinct[key] = true
	}
	r.mu.Unlock()
}

// AddTLC accumulates the statistics of a TLC run.
func (r *Run) AddTLC(config string, generated, distinct int64) {
	r.mu.Lock()
	r.transitions += generated
	r.states += distinct
	r.configs = append(r.configs, fmt.Sprintf("%s: %d generated / %d distinct", config, generated, distinct))
	r.mu.Unlock()
	r.Checkpoint()
}

// AddTraces counts real-code traces / records accepted by TLC.
func (r *Run) AddTraces(n int64) {
	r.mu.Lock()
	r.traces += n
	r.mu.Unlock()
}

// Set stores an extra coverage key.
func (r *Run) Set(k string, v interface{}) {
	r.mu.Lock()
	r.Coverage[k] = v
	r.mu.Unlock()
}

// Add adds to a numeric coverage key.
func (r *Run) Add(k string, n int64) {
	r.mu.Lock()
	if cur, ok := r.Coverage[k].(int64); ok {
		r.Coverage[k] = cur + n
	} else {
		r.Coverage[k] = n
	}
	r.mu.Unlock()
}

// Assume records an assumption of the check.
func (r *Run) Assume(s string) { r.Assumptions = append(r.Assumptions, s) }

// Checkpoint writes the evidence collected so far (marked partial), so that a crash of the code
// under test in a later phase still leaves a valid evidence file for the supervising process.
func (r *Run) Checkpoint() {
	r.mu.Lock()
	r.Coverage["partial"] = true
	r.mu.Unlock()
	r.write(r.Rule)
	r.mu.Lock()
	delete(r.Coverage, "partial")
	r.mu.Unlock()
}

// Finish writes the evidence file and returns the process exit code.
func (r *Run) Finish(rule string) int {
	if rule == "" {
		rule = r.Rule
	}
	if !r.write(rule) {
		return 2
	}
	r.mu.Lock()
	defer r.mu.Unlock()
	var kh []string
	for k, n := range r.knownHits {
		kh = append(kh, fmt.Sprintf("%s x%d", k, n))
	}
	sort.Strings(kh)
	fmt.Printf("[%s %s] done in %.1fs: evaluations=%d distinct_nontrivial=%d states=%d transitions=%d traces=%d drift=%d known=%s violations=%d\n",
		r.Prop, r.Tier, time.Since(r.start).Seconds(), r.evals, len(r.distinct), r.states, r.transitions, r.traces, r.drift,
		strings.Join(kh, ","), r.violations)
	if r.violations > 0 {
		return 1
	}
	if len(r.inconcl) > 0 {
		return 2
	}
	return 0
}

func (r *Run) write(rule string) bool {
	r.mu.Lock()
	defer r.mu.Unlock()
	cov := map[string]interface{}{}
	for k, v := range r.Coverage {
		cov[k] = v
	}
	cov["evaluations"] = r.evals
	cov["distinct_nontrivial"] = int64(len(r.distinct))
	cov["rule"] = rule
	cov["states"] = r.states
	cov["transitions"] = r.transitions
	cov["traces_validated_against_impl"] = r.traces
	cov["tlc_configs"] = r.configs
	cov["drift"] = r.drift
	var khs []string
	for k, n := range r.knownHits {
		khs = append(khs, fmt.Sprintf("%s x%d", k, n))
	}
	sort.Strings(khs)
	cov["known_findings_hit"] = khs
	if len(r.sigCount) > 0 {
		cov["violation_signatures"] = r.sigCount
	}
	samples := r.samples
	if len(samples) == 0 {
		samples = []interface{}{"no sample recorded yet"}
	}
	cov["samples"] = samples
	if len(r.inconcl) > 0 {
		cov["inconclusive"] = r.inconcl
	}
	evd := map[string]interface{}{
		"property_id": r.Prop, "tier": r.Tier, "seed": r.Seed, "level": r.Level,
		"coverage": cov, "assumptions": r.Assumptions,
		"wall_s": time.Since(r.start).Seconds(), "violations": r.violations,
	}
	b, _ := json.MarshalIndent(evd, "", " ")
	os.MkdirAll(filepath.Join(Root, "evidence"), 0o755)
	if err := os.WriteFile(filepath.Join(Root, "evidence", r.Prop+".json"), b, 0o644); err != nil {
		fmt.Println("cannot write evidence:", err)
		return false
	}
	return true
}

// AmendCrash is used by the supervising process when the check process died: the last checkpoint
// (or an empty record) gets the crash as a violation. Returns the path of the replay file.
func AmendCrash(prop, tier string, seed int64, sig, output string) string {
	path := filepath.Join(Root, "evidence", prop+".json")
	evd := map[string]interface{}{}
	if b, err := os.ReadFile(path); err == nil {
		json.Unmarshal(b, &evd)
	}
	cov, _ := evd["coverage"].(map[string]interface{})
	if cov == nil {
		cov = map[string]interface{}{"evaluations": 1, "distinct_nontrivial": 0, "rule": "the check process crashed before its first checkpoint", "samples": []interface{}{sig}}
	}
	cov["crash"] = sig
	evd["property_id"], evd["tier"], evd["seed"], evd["level"], evd["coverage"] = prop, tier, seed, "model_checking", cov
	if _, ok := evd["wall_s"]; !ok {
		evd["wall_s"] = 0.0
	}
	v, _ := evd["violations"].(float64)
	evd["violations"] = int(v) + 1
	b, _ := json.MarshalIndent(evd, "", " ")
	os.MkdirAll(filepath.Join(Root, "evidence"), 0o755)
	os.WriteFile(path, b, 0o644)
	rb, _ := json.MarshalIndent(map[string]interface{}{"property": prop, "signature": sig, "tier": tier, "seed": seed, "crash_output": output}, "", " ")
	h := sha1.Sum(rb)
	dir := filepath.Join(Root, "replays", prop)
	os.MkdirAll(dir, 0o755)
	rp := filepath.Join(dir, "crash-"+hex.EncodeToString(h[:6])+".json")
	os.WriteFile(rp, rb, 0o644)
	return rp
}
