//go:build verif

// vcheck runs one property check: vcheck <Cxx> [quick|thorough]
//
// The check itself runs in a child process (the same binary with VERIF_CHILD=1): code of krotik/ecal
// that panics on a pool worker, or a Go "fatal error", kills the process it runs in. The supervising
// parent turns such a crash - when frames of github.com/krotik/ecal are on the crashing stack - into a
// VIOLATION with the crash output as replay; any other abnormal end is inconclusive (exit 2).
package main

import (
	"bytes"
	"fmt"
	"io"
	"os"
	"os/exec"
	"regexp"
	"strings"

	"verif/harness/ev"
	"verif/harness/props"
)

var checks = map[string]struct {
	fn   func(*ev.Run)
	rule string
}{
	"C01": {props.C01, "a case is one rule set + cascade scope + event history executed on a fresh real processor (and through RuleIndex.Match/IsTriggering directly); distinct = distinct case id; non-trivial = more than one rule or more than one event"},
	"C02": {props.C02, "a case is one execution of a cascade program on the real processor under one schedule (gate schedule or free run); distinct = distinct (program, mode, schedule); non-trivial = more than 8 property-level events"},
	"C13": {props.C13, "a case is one followed counterexample of the shared-table model on the real parser, or one free concurrent run (2/8/16 goroutines, plain and -race build) over a corpus of programs with if/for constructs, map literals, sinks, string interpolation and malformed inputs; distinct = distinct schedule / worker count; non-trivial = more than one parser involved"},
	"C18": {props.C18, "a case is one source text lexed by the real lexer (class sequences of the model rendered to bytes; random interleavings of identifiers, numbers, symbols, quoted/raw strings with newlines, # and /* */ comments, CR/LF, tabs, multi-byte characters; programs with a planted parser or runtime error); distinct = distinct source; non-trivial = more than two tokens"},
	"C07": {props.C07, "a case is one input string given to parser.Parse (all token sequences up to length 3/4 over a 28-token alphabet, token-level mutations of valid programs, random byte strings incl. invalid UTF-8); distinct = distinct input; non-trivial = longer than 3 bytes"},
	"C03": {props.C03, "a case is one expression (token sequence rendered to source with a seeded layout) parsed and evaluated by the real interpreter: every pair of the 19 binary operators with prefix operators and parentheses at each position (operands by seeded choice from typed pools incl. wrong kinds), assignments, and random deeper expressions; distinct = distinct source text; non-trivial = more than 3 tokens"},
	"C08": {props.C08, "a case is one parseable source text run through parse -> PrettyPrint -> parse -> PrettyPrint on the real code (every operator under every other on either side with prefix operators above and below, statement corpus with comments / strings / containers at the multi-line thresholds, random expressions with seeded layouts, strings over an alphabet of quotes, escapes, newlines and {{ }}), plus files rewritten by tool.FormatFiles; distinct = distinct source; non-trivial = longer than 8 bytes"},
	"C04": {props.C04, "a case is one generated program (nested if/elif/else, guard / range / list / map loops, functions, try with every combination of except clauses, otherwise and finally; exits by fallthrough, break, continue, return, raise of several types and a runtime error at random positions) evaluated by the real interpreter; distinct = distinct source; non-trivial = more than 4 lines"},
	"C05": {props.C05, "a case is one generated program over a small set of names (global / block / function scopes, let, assignments to defined and undefined names, closures incl. returned counter closures, parameter defaults, argument counts below / equal / above, bounded recursion, list and map literals with number and string keys, nested container paths, aliases, reads after writes through dot and bracket access) evaluated by the real interpreter; distinct = distinct source; non-trivial = more than 6 lines"},
	"C14": {props.C14, "a case is one string literal (all arrangements of up to 2/3 pieces from an alphabet of {{, }}, braces, quotes, backslashes, newlines, text and {{expr}} with expressions whose values themselves contain {{...}}, a closing marker, a self-reproducing expression or a side-effecting call; random longer ones; quoted and raw form) evaluated by the real interpreter; distinct = distinct literal; non-trivial = value longer than 2 bytes"},
	"C06": {props.C06, "a case is one element of the case universe TLC writes from Total.tla (every built-in x argument vectors of length 0..2 over 16 values, every binary / unary operator x operand values, container reads and writes with boundary indices, guards / iterators / sink attributes / event states / interpolations of every value kind), executed plain, inside try/except and inside a sink on a pool worker; distinct = distinct case; non-trivial = at least one argument"},
	"C17": {props.C17, "a case is one (root spelling, import path) pair of the universe TLC writes from ImportPath.tla (all paths of up to 3/4 segments over a, b, c, ., .., empty, ..x, d.x, 's p', root, root2, with and without a leading slash; five spellings of the root) resolved by the real FileImportLocator over a real directory tree holding marked files inside and outside the root; a sample also through the import statement; distinct = distinct (root, path); non-trivial = more than one segment"},
	"C20": {props.C20, "a case is one interpreter binary (filler length x content descriptor: '#' bytes and partial markers anchored at the start of the file and at every distance from the marker; lengths over more than two periods of block + extension, random longer ones) packed with one of four project trees by the real packer and started through the real RunPackedBinary; distinct = distinct (length, content, project); non-trivial = non-empty binary"},
	"C19": {props.C19, "a case is one call (signature x argument vector) through the real ECALFunctionAdapter - directly or from an ECAL program - of a synthetic Go function built by reflection (every parameter kind alone and in pairs, random triples, variadic shapes incl. the plugin shape, 13 result lists, trailing error absent / nil / non-nil, panicking functions) with every argument vector of length 0..2 (3 in the thorough tier, random 3 and 4) over 25 ECAL values (19 numbers incl. halves, range borders, huge, NaN, Inf); plus every function of the generated stdlib with the same vectors; distinct = distinct (signature, vector); non-trivial = at least one argument"},
	"C15": {props.C15, "a case is one behaviour of Debugger.tla (threads of a real program whose visits were recorded from the interpreter, interleaved with client commands continue x4 / stop threads / set / remove breakpoint) followed step by step on the real debugger through gates at every debugger visit, suspension and resumption, or one debugged run of a program (functions, recursion, loops, try, sinks on a pool with mutexes, generated control-flow programs) with seeded breakpoints and a client which continues every suspended thread with a seeded command, compared with the plain run; distinct = distinct behaviour / (program, breakpoints, repetition); non-trivial = more than 4 steps"},
	"C16": {props.C16, "a case is one command line given to the real debugger's command handler in one of seven state classes (nothing executed, thread running, suspended at top level / inside nested calls / on an error / with awkward values in scope incl. containers which contain themselves, finished): every line of the universe TLC writes from DebugCmd.tla (12 command words x argument vectors of up to 4 tokens from per-position token classes) in every state class, plus random command sequences which follow the thread through its states; distinct = distinct (state, line); non-trivial = at least one argument"},
	"C09": {props.C09, "a case is one execution of the real thread pool under one schedule (release sequence of the gate scheduler, or a free run); distinct = distinct (scenario, schedule); non-trivial = more than 3 scheduling decisions"},
	"C10": {props.C10, "a case is one monitor history (model behaviour replayed / random history recorded) or one execution of a cascade program on the real processor under one schedule; distinct = distinct history or (program, schedule); non-trivial = more than 3 operations / more than 8 property-level events"},
	"C11": {props.C11, "a case is one run of 2..80 overlapping sink invocations (events with payload-dictated outcome) under one schedule (followed counterexample, random gate schedule, or free run on 2..16 workers); distinct = distinct (events, schedule); non-trivial = at least two invocations"},
	"C12": {props.C12, "a case is one run of 2..16 interpreter threads (direct evaluation goroutines or sinks on pool workers) executing generated programs of nested mutex blocks with every exit kind under one schedule; distinct = distinct (programs, schedule); non-trivial = more than 6 property-level events"},
}

var crashRe = regexp.MustCompile(`(?m)^(panic: |fatal error: |\[signal SIG)`)

func main() {
	if len(os.Args) < 2 {
		fmt.Println("usage: vcheck <property> [quick|thorough]")
		os.Exit(2)
	}
	id := os.Args[1]
	tier := "quick"
	if t := os.Getenv("VERIF_TIER"); t == "quick" || t == "thorough" {
		tier = t
	}
	if len(os.Args) > 2 {
		tier = os.Args[2]
	}
	c, ok := checks[id]
	if !ok {
		fmt.Println("unknown property", id)
		os.Exit(2)
	}
	if os.Getenv("VERIF_CHILD") == "1" {
		r := ev.Start(id, tier, ev.SeedFromEnv())
		r.Rule = c.rule
		c.fn(r)
		os.Exit(r.Finish(c.rule))
	}
	if props.ChildMain(os.Getenv("VERIF_CHILD"), os.Args[1:]) {
		return
	}
	// supervising parent
	os.Remove("/verif/evidence/" + id + ".json")
	cmd := exec.Command(os.Args[0], os.Args[1:]...)
	cmd.Env = append(os.Environ(), "VERIF_CHILD=1", "GOTRACEBACK=all")
	var buf bytes.Buffer
	cmd.Stdout = io.MultiWriter(os.Stdout, &tailWriter{buf: &buf})
	cmd.Stderr = cmd.Stdout
	err := cmd.Run()
	code := 0
	if ee, ok := err.(*exec.ExitError); ok {
		code = ee.ExitCode()
	} else if err != nil {
		fmt.Println("INCONCLUSIVE property=" + id + " cannot run the check process: " + err.Error())
		os.Exit(2)
	}
	out := buf.String()
	if code == 0 || code == 1 {
		if code == 0 && strings.Contains(out, "VIOLATION property=") {
			code = 1
		}
		os.Exit(code)
	}
	if loc := crashRe.FindStringIndex(out); loc != nil {
		crash := out[loc[0]:]
		if len(crash) > 20000 {
			crash = crash[:20000]
		}
		first := strings.SplitN(crash, "\n", 2)[0]
		// only the crashing goroutine counts: the message block and the first goroutine block
		blocks := strings.SplitN(crash, "\n\n", 3)
		crashing := blocks[0]
		if len(blocks) > 1 {
			crashing += "\n\n" + blocks[1]
		}
		// encoding a value handed out by krotik/ecal is the property's own observation point (C16: the command result
		// must be JSON-encodable): a fatal concurrent map access there is a map the code still writes to
		handedOut := id == "C16" && strings.HasPrefix(first, "fatal error: concurrent map") && strings.Contains(crashing, "encoding/json") && strings.Contains(crashing, "dbgEnv")
		if strings.Contains(crashing, "github.com/krotik/ecal/") || handedOut {
			sig := id + " process crash: " + first
			path := ev.AmendCrash(id, tier, ev.SeedFromEnv(), sig, crash)
			fmt.Printf("VIOLATION property=%s replay=%s\n  signature: %s\n  the process running krotik/ecal died (%s) with frames of github.com/krotik/ecal on the stack\n", id, path, sig, first)
			os.Exit(1)
		}
		fmt.Printf("INCONCLUSIVE property=%s the check process crashed outside krotik/ecal: %s\n", id, first)
		os.Exit(2)
	}
	fmt.Printf("INCONCLUSIVE property=%s the check process ended with exit code %d\n", id, code)
	os.Exit(2)
}

// tailWriter keeps the last part of the output.
type tailWriter struct{ buf *bytes.Buffer }

func (t *tailWriter) Write(p []byte) (int, error) {
	t.buf.Write(p)
	if t.buf.Len() > 4<<20 {
		b := t.buf.Bytes()
		keep := append([]byte(nil), b[len(b)-(2<<20):]...)
		t.buf.Reset()
		t.buf.Write(keep)
	}
	return len(p), nil
}
