//go:build verif

// vcheck runs one property check: vcheck <Cxx> [quick|thorough]
package main

import (
	"fmt"
	"os"

	"verif/harness/ev"
	"verif/harness/props"
)

var checks = map[string]struct {
	fn   func(*ev.Run)
	rule string
}{
	"C10": {props.C10, "a case is one monitor history (model behaviour replayed / random history recorded) or one execution of a cascade program on the real processor under one schedule; distinct = distinct history or (program, schedule); non-trivial = more than 3 operations / more than 8 property-level events"},
	"C02": {props.C02, "a case is one execution of a cascade program on the real processor under one schedule (gate schedule or free run); distinct = distinct (program, mode, schedule); non-trivial = more than 8 property-level events"},
	"C01": {props.C01, "a case is one rule set + cascade scope + event history executed on a fresh real processor (and through RuleIndex.Match/IsTriggering directly); distinct = distinct case id; non-trivial = more than one rule or more than one event"},
	"C11": {props.C11, "a case is one run of 2..80 overlapping sink invocations (events with payload-dictated outcome) under one schedule (followed counterexample, random gate schedule, or free run on 2..16 workers); distinct = distinct (events, schedule); non-trivial = at least two invocations"},
	"C12": {props.C12, "a case is one run of 2..16 interpreter threads (direct evaluation goroutines or sinks on pool workers) executing generated programs of nested mutex blocks with every exit kind under one schedule; distinct = distinct (programs, schedule); non-trivial = more than 6 property-level events"},
	"C09": {props.C09, "a case is one execution of the real thread pool under one schedule (release sequence of the gate scheduler, or a free run); distinct = distinct (scenario, schedule); non-trivial = more than 3 scheduling decisions"},
}

func main() {
	if len(os.Args) < 2 {
		fmt.Println("usage: vcheck <property> [quick|thorough]")
		os.Exit(2)
	}
	id := os.Args[1]
	tier := "quick"
	if len(os.Args) > 2 {
		tier = os.Args[2]
	}
	if t := os.Getenv("VERIF_TIER"); t == "quick" || t == "thorough" {
		if len(os.Args) <= 2 {
			tier = t
		}
	}
	c, ok := checks[id]
	if !ok {
		fmt.Println("unknown property", id)
		os.Exit(2)
	}
	r := ev.Start(id, tier, ev.SeedFromEnv())
	c.fn(r)
	os.Exit(r.Finish(c.rule))
}
