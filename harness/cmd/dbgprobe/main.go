// dbgprobe: run a program under the debugger with a breakpoint, then issue debugger commands (probe tool).
package main

import (
	"encoding/json"
	"fmt"
	"os"
	"strings"
	"time"

	"github.com/krotik/ecal/interpreter"
	"github.com/krotik/ecal/parser"
	"github.com/krotik/ecal/scope"
	"github.com/krotik/ecal/util"
)

func main() {
	src := strings.Replace(os.Args[1], "\\n", "\n", -1)
	vs := scope.NewScope(scope.GlobalScope)
	erp := interpreter.NewECALRuntimeProvider("prog", nil, util.NewMemoryLogger(10))
	erp.Cron.Stop()
	erp.Debugger = interpreter.NewECALDebugger(vs)
	erp.Debugger.HandleInput("break prog:" + os.Args[2])
	go func() {
		ast, err := parser.ParseWithRuntime("prog", src, erp)
		if err != nil {
			fmt.Println("parse:", err)
			return
		}
		ast.Runtime.Validate()
		tid := erp.NewThreadID()
		res, err := ast.Runtime.Eval(vs, make(map[string]interface{}), tid)
		fmt.Println("program ended:", res, err)
		erp.Debugger.RecordThreadFinished(tid)
	}()
	time.Sleep(300 * time.Millisecond)
	for _, c := range os.Args[3:] {
		res, err := erp.Debugger.HandleInput(c)
		b, jerr := json.Marshal(res)
		s := string(b)
		if len(s) > 600 {
			s = s[:600] + "..."
		}
		fmt.Printf("> %s\n  err=%v jsonerr=%v\n  %s\n", c, err, jerr, s)
		time.Sleep(100 * time.Millisecond)
	}
}
