//go:build verif

// ppmin: reduce a source text (file argument) which fails the formatter property to a small one.
package main

import (
	"fmt"
	"os"

	"verif/harness/props"
)

func main() {
	b, _ := os.ReadFile(os.Args[1])
	s, c := props.MinimizeSource(string(b))
	fmt.Printf("clause %d\n%s\n", c, s)
}
