// ppprobe: parse the source given as argument (or stdin), pretty print it, parse and print again.
package main

import (
	"fmt"
	"io"
	"os"

	"github.com/krotik/ecal/parser"
)

func main() {
	var src string
	if len(os.Args) > 1 {
		src = os.Args[1]
	} else {
		b, _ := io.ReadAll(os.Stdin)
		src = string(b)
	}
	ast, err := parser.Parse("probe", src)
	if err != nil {
		fmt.Println("parse error:", err)
		return
	}
	p1, err := parser.PrettyPrint(ast)
	fmt.Printf("--- print 1 (err=%v)\n%s\n", err, p1)
	ast2, err := parser.Parse("probe", p1)
	if err != nil {
		fmt.Println("re-parse error:", err)
		return
	}
	fmt.Println("same tree:", ast.String() == ast2.String())
	p2, err := parser.PrettyPrint(ast2)
	fmt.Printf("--- print 2 (err=%v) idempotent=%v\n%s\n", err, p1 == p2, p2)
}
