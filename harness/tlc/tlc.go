// Package tlc runs the TLC model checker on the specifications in /verif/specs
// inside a scratch directory (removed afterwards) and parses its statistics.
package tlc

import (
	"bytes"
	"context"
	"fmt"
	"io"
	"os"
	"os/exec"
	"path/filepath"
	"regexp"
	"strconv"
	"strings"
	"time"
)

// Options of one TLC run.
type Options struct {
	SpecDir  string            // directory with the .tla/.cfg files (copied to scratch)
	Module   string            // e.g. "Pool" (Pool.tla)
	Config   string            // e.g. "Pool_mc.cfg" (relative to SpecDir)
	Workers  int               // 0 = auto
	Timeout  time.Duration     // wall clock bound
	Args     []string          // extra args: -simulate, -depth, -seed, -deadlock, -coverage ...
	Env      map[string]string // extra environment (IOEnv in the spec)
	Files    map[string]string // extra files to place in the scratch dir: name -> source path
	JavaOpts string            // e.g. -Xss512m
	Keep     []string          // files to copy back from the scratch dir: name -> returned in Result.Kept
	DFS      bool              // use the depth-first state queue (branching trace specs)
}

// Result of one TLC run.
type Result struct {
	ExitCode   int
	Generated  int64
	Distinct   int64
	Depth      int
	Output     string
	OK         bool // "Model checking completed. No error has been found." / simulation finished
	Violated   string
	TimedOut   bool
	Wall       time.Duration
	Kept       map[string][]byte
	Coverage   map[string][2]int64 // action -> (distinct, total) when -coverage was used
	ScratchDir string
}

var statsRe = regexp.MustCompile(`(\d+) states generated, (\d+) distinct states found`)
var depthRe = regexp.MustCompile(`The depth of the complete state graph search is (\d+)`)
var invRe = regexp.MustCompile(`(?m)^Error: (Invariant \S+ is violated.*|Action property \S+ is violated.*|Temporal properties were violated.*|Deadlock reached.*|Assumption .* is false.*|The postcondition.*|.*POSTCONDITION.*)`)
var covRe = regexp.MustCompile(`(?m)^<(\w+) line \d+, col \d+ to line \d+, col \d+ of module (\w+)>: (\d+):(\d+)`)

func copyFile(dst, src string) error {
	in, err := os.Open(src)
	if err != nil {
		return err
	}
	defer in.Close()
	out, err := os.Create(dst)
	if err != nil {
		return err
	}
	defer out.Close()
	_, err = io.Copy(out, in)
	return err
}

// Run executes TLC.
func Run(o Options) (*Result, error) {
	scratch, err := os.MkdirTemp("", "verif-tlc-")
	if err != nil {
		return nil, err
	}
	defer os.RemoveAll(scratch)

	ents, err := os.ReadDir(o.SpecDir)
	if err != nil {
		return nil, err
	}
	for _, e := range ents {
		if e.IsDir() {
			continue
		}
		n := e.Name()
		if strings.HasSuffix(n, ".tla") || strings.HasSuffix(n, ".cfg") {
			if err := copyFile(filepath.Join(scratch, n), filepath.Join(o.SpecDir, n)); err != nil {
				return nil, err
			}
		}
	}
	for name, src := range o.Files {
		if err := copyFile(filepath.Join(scratch, name), src); err != nil {
			return nil, err
		}
	}
	if o.Timeout == 0 {
		o.Timeout = 5 * time.Minute
	}
	args := []string{"-metadir", filepath.Join(scratch, "meta"), "-config", o.Config}
	if o.Workers > 0 {
		args = append(args, "-workers", strconv.Itoa(o.Workers))
	} else {
		args = append(args, "-workers", "auto")
	}
	args = append(args, o.Args...)
	args = append(args, o.Module+".tla")

	ctx, cancel := context.WithTimeout(context.Background(), o.Timeout)
	defer cancel()
	cmd := exec.CommandContext(ctx, "tlc", args...)
	cmd.Dir = scratch
	env := os.Environ()
	jopts := o.JavaOpts
	if jopts == "" {
		jopts = "-Xss256m"
	}
	if o.DFS {
		jopts += " -Dtlc2.tool.queue.IStateQueue=StateDeque"
	}
	env = append(env, "JAVA_TOOL_OPTIONS="+jopts)
	for k, v := range o.Env {
		env = append(env, k+"="+v)
	}
	cmd.Env = env
	var out bytes.Buffer
	cmd.Stdout = &out
	cmd.Stderr = &out
	t0 := time.Now()
	runErr := cmd.Run()
	res := &Result{Output: out.String(), Wall: time.Since(t0), Kept: map[string][]byte{}}
	if ctx.Err() == context.DeadlineExceeded {
		res.TimedOut = true
	}
	if ee, ok := runErr.(*exec.ExitError); ok {
		res.ExitCode = ee.ExitCode()
	} else if runErr != nil {
		return res, runErr
	}
	if ms := statsRe.FindAllStringSubmatch(res.Output, -1); len(ms) > 0 {
		m := ms[len(ms)-1]
		res.Generated, _ = strconv.ParseInt(m[1], 10, 64)
		res.Distinct, _ = strconv.ParseInt(m[2], 10, 64)
	}
	if m := depthRe.FindStringSubmatch(res.Output); m != nil {
		res.Depth, _ = strconv.Atoi(m[1])
	}
	if m := invRe.FindStringSubmatch(res.Output); m != nil {
		res.Violated = m[1]
	}
	res.OK = res.ExitCode == 0 && res.Violated == "" && !res.TimedOut &&
		(strings.Contains(res.Output, "No error has been found") || strings.Contains(res.Output, "Finished in") || strings.Contains(res.Output, "The number of states generated"))
	if ms := covRe.FindAllStringSubmatch(res.Output, -1); len(ms) > 0 {
		res.Coverage = map[string][2]int64{}
		for _, m := range ms {
			a, _ := strconv.ParseInt(m[3], 10, 64)
			b, _ := strconv.ParseInt(m[4], 10, 64)
			res.Coverage[m[1]] = [2]int64{a, b}
		}
	}
	for _, k := range o.Keep {
		if b, err := os.ReadFile(filepath.Join(scratch, k)); err == nil {
			res.Kept[k] = b
		}
	}
	return res, nil
}

// Tail returns the last n lines of the output (for diagnostics).
func (r *Result) Tail(n int) string {
	lines := strings.Split(strings.TrimRight(r.Output, "\n"), "\n")
	if len(lines) > n {
		lines = lines[len(lines)-n:]
	}
	return strings.Join(lines, "\n")
}

// Printed extracts the string payloads printed with PrintT(<<tag, "payload">>) (TLC may wrap the
// tuple over several lines; the string itself is never broken).
func (r *Result) Printed(tag string) []string {
	re := regexp.MustCompile(`(?s)<<\s*"` + regexp.QuoteMeta(tag) + `",\s*("(?:[^"\\]|\\.)*")\s*>>`)
	var res []string
	for _, m := range re.FindAllStringSubmatch(r.Output, -1) {
		if s, err := strconv.Unquote(m[1]); err == nil {
			res = append(res, s)
		}
	}
	return res
}

// Describe gives a one-line summary.
func (r *Result) Describe() string {
	return fmt.Sprintf("exit=%d generated=%d distinct=%d depth=%d violated=%q timedout=%v wall=%.1fs",
		r.ExitCode, r.Generated, r.Distinct, r.Depth, r.Violated, r.TimedOut, r.Wall.Seconds())
}
