module verif/harness

go 1.21

require (
	github.com/krotik/common v1.4.4
	github.com/krotik/ecal v0.0.0
)

replace github.com/krotik/ecal => /repo
