//go:build verif

package props

import (
	"bufio"
	"encoding/json"
	"fmt"
	"math/rand"
	"os"
	"path/filepath"
	"regexp"
	"strings"
	"sync"
	"sync/atomic"
	"time"

	"github.com/krotik/ecal/interpreter"
	"github.com/krotik/ecal/parser"
	"github.com/krotik/ecal/scope"
	"github.com/krotik/ecal/util"
	"github.com/krotik/ecal/verifhook"

	"verif/harness/ev"
	"verif/harness/tlc"
)

// ---- a debugger brought into a state class -------------------------------------------------------------

type dbgEnv struct {
	erp      *interpreter.ECALRuntimeProvider
	dbg      util.ECALDebugger
	vs       parser.Scope
	tid      uint64
	done     chan struct{}
	st       string
	res      interface{}
	err      error
	ended    int32
	busyDone chan struct{}
	dead     bool // a call into the debugger did not return (a lock was left behind)
}

// describe asks the debugger for the thread's state without trusting it to answer.
func (e *dbgEnv) describe() map[string]interface{} {
	var d map[string]interface{}
	if pm, hung := guarded(2*time.Second, func() { d, _ = e.dbg.Describe(e.tid).(map[string]interface{}) }); pm != "" || hung != "" {
		e.dead = true
		return nil
	}
	return d
}

var goidRe = regexp.MustCompile(`goroutine \d+`)

var dbgSpin int32

// suspension notices of the debug.suspend hook: tid -> channel
var dbgSuspMu sync.Mutex
var dbgSusp = map[uint64]chan int{}

func dbgHook(point string, args ...interface{}) {
	if point == "debug.suspend" {
		tid := args[0].(uint64)
		dbgSuspMu.Lock()
		ch := dbgSusp[tid]
		dbgSuspMu.Unlock()
		if ch != nil {
			select {
			case ch <- args[1].(int):
			default:
			}
		}
	}
}

var dbgPrograms = map[string][2]string{ // state class -> (source, breakpoint line)
	"running":  {"x := 1\nfor verif.spin() {\n    mutex m1 {\n        y := 1\n    }\n    mutex m2 {\n        y := 2\n    }\n}\n", ""},
	"suspTop":  {"x := 1\ny := 2\nz := 3\nw := 4\n", "2"},
	"suspCall": {"x := 1\nfunc g(p) {\n    v := p\n    return v + 1\n}\nfunc f(q) {\n    return g(q) + 1\n}\nres := f(1)\nlast := 1\n", "3"},
	"suspBusy": {"x := 1\nfunc g(p) {\n    v := p\n    return v + 1\n}\nfunc f(q) {\n    return g(q) + 1\n}\nres := f(1)\nlast := 1\n", "3"},
	"suspErr":  {"x := 1\nfunc f() {\n    raise(\"E\", \"detail\", {1 : [2, {3 : 4}], \"k\" : 5})\n}\nf()\nlast := 1\n", ""},
	"suspOdd": {"x := 1\nfn := func() {\n    return 1\n}\ninf := math.inf(1)\nnan := math.naN()\ndeep := [[[[[[[[[[[[1]]]]]]]]]]]]\nm := {\"a\" : 1, 2 : [fn]}\nm.self := m\nl := [1, [2]]\nl[1][0] := l\nel := []\n" +
		"func h() {\n    return 1\n}\nq := h()\ny := 2\nz := 3\n", "17"},
	"finished": {"x := 1\n", ""},
}

func newDbgEnv(st string) (*dbgEnv, string) {
	vs := scope.NewScope(scope.GlobalScope)
	if st == "suspBusy" {
		vs = scope.NewScope("root scope of a host which has its own name for it")
	}
	erp := interpreter.NewECALRuntimeProvider("prog", nil, util.NewMemoryLogger(100))
	erp.Cron.Stop()
	erp.Debugger = interpreter.NewECALDebugger(vs)
	e := &dbgEnv{erp: erp, dbg: erp.Debugger, vs: vs, st: st, done: make(chan struct{}), tid: 1}
	if st == "fresh" {
		close(e.done)
		return e, ""
	}
	prog := dbgPrograms[st]
	if prog[1] != "" {
		e.dbg.HandleInput("break prog:" + prog[1])
	}
	ast, err := parser.ParseWithRuntime("prog", prog[0], erp)
	if err == nil {
		err = ast.Runtime.Validate()
	}
	if err != nil {
		return nil, "program of state " + st + " does not parse: " + err.Error()
	}
	e.tid = erp.NewThreadID()
	ch := make(chan int, 4)
	dbgSuspMu.Lock()
	dbgSusp[e.tid] = ch
	dbgSuspMu.Unlock()
	atomic.StoreInt32(&dbgSpin, 1)
	go func() {
		defer close(e.done)
		defer func() { atomic.StoreInt32(&e.ended, 1) }()
		e.res, e.err = ast.Runtime.Eval(vs, make(map[string]interface{}), e.tid)
		e.dbg.RecordThreadFinished(e.tid)
	}()
	if st == "suspBusy" {
		// a second thread which enters and leaves functions all the time (every call asks for the debugger's write lock)
		ast2, err2 := parser.ParseWithRuntime("busy", "func h(a) {\n    return a\n}\nfor verif.spin() {\n    q := h(1)\n    q := h(q)\n}\n", erp)
		if err2 == nil {
			err2 = ast2.Runtime.Validate()
		}
		if err2 != nil {
			return nil, "busy program does not parse: " + err2.Error()
		}
		tid2 := erp.NewThreadID()
		e.busyDone = make(chan struct{})
		go func() {
			defer close(e.busyDone)
			ast2.Runtime.Eval(scope.NewScope(scope.GlobalScope), make(map[string]interface{}), tid2)
			e.dbg.RecordThreadFinished(tid2)
		}()
	}
	switch st {
	case "finished":
		select {
		case <-e.done:
		case <-time.After(5 * time.Second):
			return e, "program did not finish"
		}
	case "running":
		deadline := time.Now().Add(5 * time.Second)
		for time.Now().Before(deadline) {
			if s, ok := e.dbg.Status().(map[string]interface{}); ok {
				if th, ok := s["threads"].(map[string]map[string]interface{}); ok && len(th) > 0 {
					return e, ""
				}
			}
			time.Sleep(200 * time.Microsecond)
		}
		return e, "thread did not start"
	default:
		if !e.waitSuspended(5 * time.Second) {
			return e, "thread did not suspend in state " + st
		}
	}
	return e, ""
}

// waitSuspended waits for the suspension notice of the thread and until it is parked.
func (e *dbgEnv) waitSuspended(d time.Duration) bool {
	dbgSuspMu.Lock()
	ch := dbgSusp[e.tid]
	dbgSuspMu.Unlock()
	select {
	case <-ch:
		time.Sleep(300 * time.Microsecond)
		return true
	case <-e.done:
		return false
	case <-time.After(d):
		return false
	}
}

// observe classifies the state after a command that may have moved the thread: the thread is polled until it
// is finished, reported as suspended, or has been running for 30 ms.
func (e *dbgEnv) observe() string {
	deadline := time.Now().Add(30 * time.Millisecond)
	for {
		select {
		case <-e.done:
			return "finished"
		default:
		}
		if e.dead {
			return e.st
		}
		if d := e.describe(); d != nil {
			if running, _ := d["threadRunning"].(bool); !running {
				// confirmed a little later: a thread which passes an error upwards is shown as not running for a moment
				time.Sleep(time.Millisecond)
				d2 := e.describe()
				if r2, _ := d2["threadRunning"].(bool); d2 == nil || r2 || atomic.LoadInt32(&e.ended) == 1 {
					continue
				}
				if d["error"] != nil {
					return "suspErr"
				}
				if e.st == "suspOdd" || e.st == "suspBusy" {
					return e.st
				}
				if cs, ok := d["callStack"].([]string); ok && len(cs) > 0 {
					return "suspCall"
				}
				return "suspTop"
			}
		}
		if time.Now().After(deadline) {
			if atomic.LoadInt32(&e.ended) == 1 {
				return "finished"
			}
			return "running"
		}
		time.Sleep(200 * time.Microsecond)
	}
}

func (e *dbgEnv) close() {
	atomic.StoreInt32(&dbgSpin, 0)
	for k := 0; k < 50; k++ {
		// a debugger whose lock was left behind would hold the clean-up for ever
		if pm, hung := guarded(2*time.Second, func() { e.dbg.StopThreads(0) }); pm != "" || hung != "" {
			break
		}
		select {
		case <-e.done:
			k = 50
		case <-time.After(20 * time.Millisecond):
		}
	}
	if e.busyDone != nil {
		select {
		case <-e.busyDone:
		case <-time.After(time.Second):
		}
	}
	dbgSuspMu.Lock()
	delete(dbgSusp, e.tid)
	dbgSuspMu.Unlock()
}

var dbgTokText = map[string]string{"num": "42", "tidx": "7777", "neg": "-1", "huge": "99999999999999999999", "float": "1.5", "word": "abc", "sl": "prog:2", "slx": "nosuch:3", "sln": "prog:-1",
	"slh": "prog:99999999999999999999", "slw": "prog:x", "sle": "prog:", "cl": ":5", "sll": "a:1:2", "src": "prog", "srclong": "a-source-name-which-is-longer-than-every-breakpoint-key", "resume": "resume", "stepin": "stepin", "stepover": "stepover",
	"stepout": "stepout", "STEPIN": "STEPIN", "var": "x", "novar": "zz", "badname": "1x", "expr": "1+2", "rterr": "1+\"x\"", "listidx": "el.0", "listneg": "el.-1", "badexpr": "((", "true": "true", "false": "false"}

type dbgCase struct {
	St    string   `json:"st"`
	C     string   `json:"c"`
	A     []string `json:"a"`
	Exp   string   `json:"exp"`
	Moves bool     `json:"moves"`
}

type dbgRec struct {
	St     string   `json:"st"`
	C      string   `json:"c"`
	A      []string `json:"a"`
	Class  string   `json:"class"`
	JSON   bool     `json:"json"`
	Alive  bool     `json:"alive"`
	line   string
	detail string
}

func (e *dbgEnv) line(c string, a []string) string {
	parts := []string{c}
	for _, t := range a {
		if t == "tid" {
			parts = append(parts, fmt.Sprint(e.tid))
		} else {
			parts = append(parts, dbgTokText[t])
		}
	}
	return strings.TrimSpace(strings.Join(parts, " "))
}

// run gives one line to the command handler and checks the aftermath.
func (e *dbgEnv) run(c string, a []string) *dbgRec {
	rec := &dbgRec{St: e.st, C: c, A: a, line: e.line(c, a)}
	if rec.A == nil {
		rec.A = []string{}
	}
	var res interface{}
	var err error
	pm, hung := guarded(5*time.Second, func() { res, err = e.dbg.HandleInput(rec.line) })
	switch {
	case pm != "" || hung != "":
		rec.Class, rec.detail = "fault", pm+hung
	case err != nil:
		rec.Class, rec.detail = "error", err.Error()
		rec.JSON = true
	default:
		rec.Class = "value"
		var jerr error
		if pm, hung := guarded(5*time.Second, func() { _, jerr = json.Marshal(res) }); pm != "" || hung != "" || jerr != nil {
			rec.detail = fmt.Sprintf("json.Marshal: %s%s %v", pm, hung, jerr)
		} else {
			rec.JSON = true
		}
	}
	// the debugger must keep answering: a writer, another writer, a reader
	rec.Alive = true
	for _, follow := range []string{"break zzz:1", "rmbreak zzz:1", "status"} {
		var ferr error
		if pm, hung := guarded(3*time.Second, func() { _, ferr = e.dbg.HandleInput(follow) }); pm != "" || hung != "" || ferr != nil {
			rec.Alive = false
			rec.detail += fmt.Sprintf(" | follow-up %q: %s%s %v", follow, pm, hung, ferr)
			break
		}
	}
	return rec
}

// C16 is the driver of property C16.
func C16(r *ev.Run) {
	tier := r.Tier
	rng := rand.New(rand.NewSource(r.Seed))
	verifhook.Set(dbgHook)
	defer verifhook.Set(func(string, ...interface{}) {})
	bindVerif("spin", func(uint64, []interface{}) (interface{}, error) {
		time.Sleep(50 * time.Microsecond)
		return atomic.LoadInt32(&dbgSpin) == 1, nil
	})
	r.Assume("the command handler is used by one client at a time (the telnet / console front ends serialise their input)")

	// 1. TLC writes the case universe: state class x command line with the answer class of the model (direction A)
	out := filepath.Join(os.TempDir(), fmt.Sprintf("verif-c16-cases-%d.ndjson", os.Getpid()))
	defer os.Remove(out)
	if res := runMC(r, tlc.Options{Module: "DebugCases", Config: "DebugCases.cfg", Workers: 1, Timeout: 10 * time.Minute, Env: map[string]string{"VERIF_OUT": out}}); res == nil {
		return
	}
	byState := map[string][]*dbgCase{}
	var lines []*dbgCase
	if f, err := os.Open(out); err == nil {
		sc := bufio.NewScanner(f)
		sc.Buffer(make([]byte, 1<<20), 1<<20)
		for sc.Scan() {
			c := &dbgCase{}
			if json.Unmarshal(sc.Bytes(), c) == nil {
				byState[c.St] = append(byState[c.St], c)
				if c.St == "fresh" {
					lines = append(lines, c)
				}
			}
		}
		f.Close()
	}
	if len(lines) < 300 {
		r.Inconclusive("TLC did not write the case universe")
		return
	}
	var trace []interface{}
	var recs []*dbgRec
	broken := 0 // lines after which the debugger panicked, hung or stopped answering: each costs its time bounds
	emit := func(rec *dbgRec) {
		recs = append(recs, rec)
		trace = append(trace, rec)
		r.Case(rec.St+"|"+rec.line, len(rec.A) > 0)
		if rec.Class == "fault" || !rec.Alive {
			broken++
		}
	}
	t0 := time.Now()
	states := []string{"fresh", "running", "suspTop", "suspCall", "suspErr", "suspOdd", "suspBusy", "finished"}
	setupFail := func(st, why string) {
		r.Violation("C16 state cannot be established: "+st, why, map[string]string{"state": st})
	}
	for _, st := range states {
		cs := byState[st]
		rng.Shuffle(len(cs), func(i, j int) { cs[i], cs[j] = cs[j], cs[i] })
		var env *dbgEnv
		used := 0
		for _, c := range cs {
			if broken >= 12 {
				break // enough to report; going on would only wait for more time bounds
			}
			if env == nil || used > 150 {
				if env != nil {
					env.close()
				}
				var why string
				env, why = newDbgEnv(st)
				used = 0
				if why != "" {
					setupFail(st, why)
					if env != nil {
						env.close()
					}
					env = nil
					break
				}
			}
			rec := env.run(c.C, c.A)
			used++
			emit(rec)
			if rec.Class == "fault" || !rec.Alive || c.Moves {
				env.close()
				env = nil
			}
		}
		if env != nil {
			env.close()
		}
		r.Logf("state %s: %d lines, %.1fs since start", st, len(cs), time.Since(t0).Seconds())
		r.Checkpoint()
	}
	// 2. random command sequences which follow the thread through its states (direction B)
	walks := pick(tier, 1500, 20000)
	for w := 0; w < walks && broken < 12; w++ {
		st := states[1+rng.Intn(len(states)-2)]
		if w%10 == 0 {
			st = "fresh"
		}
		env, why := newDbgEnv(st)
		if why != "" {
			setupFail(st, why)
			if env != nil {
				env.close()
			}
			continue
		}
		for k, n := 0, 5+rng.Intn(25); k < n; k++ {
			c := lines[rng.Intn(len(lines))]
			if rng.Intn(6) == 0 { // a command that really continues the thread
				c = &dbgCase{C: "cont", A: []string{"tid", []string{"resume", "stepin", "stepover", "stepout"}[rng.Intn(4)]}}
			}
			rec := env.run(c.C, c.A)
			emit(rec)
			if rec.Class == "fault" || !rec.Alive {
				break
			}
			if env.dead {
				broken++
				break
			}
			if c.C == "cont" && len(c.A) == 2 && c.A[0] == "tid" && env.st != "fresh" && env.st != "finished" && env.st != "running" {
				env.st = env.observe()
			} else if env.st == "running" && ((c.C == "breakonstart" && (len(c.A) == 0 || c.A[0] == "true")) || (c.C == "break" && len(c.A) > 0 && c.A[0] == "sl")) {
				env.st = env.observe()
			}
		}
		env.close()
	}
	if len(recs) > 10 {
		for _, k := range []int{len(recs) / 4, len(recs) - 3} {
			r.Sample(map[string]interface{}{"state": recs[k].St, "line": recs[k].line, "class": recs[k].Class, "json": recs[k].JSON, "alive": recs[k].Alive, "detail": headStr(recs[k].detail, 120)})
		}
	}
	bad, ok := validateTrace(r, "DebugCmd_Trace", "DebugCmd_Trace.cfg", trace, 30*time.Minute)
	if !ok {
		return
	}
	badRecs := map[int]bool{}
	drift := 0
	for _, code := range bad {
		idx, clause := code/10, code%10
		rec := recs[idx-1]
		if clause == 4 {
			drift++
			if drift <= 5 {
				r.Drift(fmt.Sprintf("state %s line %q answered %s (%s); the model expects the other class", rec.St, rec.line, rec.Class, headStr(rec.detail, 100)))
			}
			continue
		}
		badRecs[idx] = true
		sig := map[int]string{1: "C16 fault in command " + rec.C + " in state " + rec.St + ": " + firstWords(goidRe.ReplaceAllString(rec.detail, "goroutine"), 5), 2: "C16 result of " + rec.C + " is not JSON-encodable in state " + rec.St,
			3: "C16 debugger does not answer after " + rec.C + " in state " + rec.St}[clause]
		r.Violation(sig, fmt.Sprintf("state %s, line %q: class=%s json=%v alive=%v %s", rec.St, rec.line, rec.Class, rec.JSON, rec.Alive, headStr(rec.detail, 300)), rec)
	}
	if drift > 0 {
		r.Set("answer_class_drift", drift)
	}
	r.AddTraces(int64(len(recs) - len(badRecs)))
	r.Set("command_lines", len(recs))
}
