//go:build verif

package props

import (
	"bufio"
	"bytes"
	"encoding/json"
	"fmt"
	"io"
	"math/rand"
	"os"
	"path/filepath"
	"reflect"
	"sort"
	"strconv"
	"strings"
	"time"

	"github.com/krotik/ecal/cli/tool"
	"github.com/krotik/ecal/verifhook"

	"verif/harness/ev"
	"verif/harness/tlc"
)

type packDesc struct {
	Stride   int     `json:"stride"`
	From     int     `json:"from"`
	Singles  []int   `json:"singles"`
	Partials [][]int `json:"partials"`
	ZHash    []int   `json:"zhash"`
}

type packCase struct {
	L int      `json:"L"`
	N string   `json:"n"`
	D packDesc `json:"d"`
}

// records of PackScan_Trace
type packRec struct {
	Ev      string    `json:"ev"`
	L       int       `json:"L"`
	ZLen    int       `json:"zlen"`
	D       *packDesc `json:"d,omitempty"`
	Pos     int       `json:"pos"`
	N       int       `json:"n"`
	Found   bool      `json:"found"`
	Outcome string    `json:"outcome,omitempty"`
	CodeOK  bool      `json:"code_ok"`
	FilesOK bool      `json:"files_ok"`
	caseIdx int
}

type packProject struct {
	dir       string
	entry     string
	files     map[string]string // expected content of the memory import locator
	code      int
	entryText string
}

// filler renders a descriptor to the bytes of the "interpreter binary".
func (c *packCase) filler(marker string) []byte {
	b := make([]byte, c.L)
	for p := range b {
		b[p] = byte('A' + p%23)
	}
	for _, pa := range c.D.Partials {
		for k := 0; k < pa[1] && k < len(marker); k++ {
			if q := pa[0] + k; q >= 0 && q < c.L {
				b[q] = marker[k]
			}
		}
	}
	if c.D.Stride > 0 {
		first := ((c.D.From + c.D.Stride - 1) / c.D.Stride) * c.D.Stride
		for p := first; p < c.L; p += c.D.Stride {
			b[p] = '#'
		}
	}
	for _, q := range c.D.Singles {
		if q >= 0 && q < c.L {
			b[q] = '#'
		}
	}
	return b
}

// packNoise gives n bytes which do not compress (a file larger than any buffer of the loader).
func packNoise(n int) string {
	b := make([]byte, n)
	x := uint32(2463534242)
	for i := range b {
		x ^= x << 13
		x ^= x >> 17
		x ^= x << 5
		b[i] = byte(x)
	}
	return string(b)
}

func makePackProjects(base string) ([]*packProject, error) {
	var all256 []byte
	for i := 0; i < 256; i++ {
		all256 = append(all256, byte(i))
	}
	marker, _, _ := tool.VerifPackGeometry()
	defs := []map[string]string{
		{"main.ecal": "41"},
		{"main.ecal": "import \"lib/a.ecal\" as a\na.base + 7", "lib/a.ecal": "base := 10\n", "lib/deep/er/x.ecal": "x := 1", "empty.txt": "", "data.bin": string(all256),
			"with space.txt": "a b", "lib/marker.txt": "text" + marker + "PK more" + marker},
		{"main.ecal": "import \"b.ecal\" as b\nb.f(3)", "b.ecal": "func f(x) {\n    return x * 5\n}\n", "hash/####.txt": "####", "big.bin": strings.Repeat("#ECALSRC\n", 3000), "large/noise.bin": packNoise(150000)},
		{"src/main.ecal": "import \"src/c.ecal\" as c\nc.v", "src/c.ecal": "v := 200\n", "z/z/z/z/z.txt": "z"},
		{"main.ecal": "77", ".ecalsrc-entry": "78", ".hidden/.x": "h"},
	}
	codes := []int{41, 17, 15, 200, 77}
	entries := []string{"main.ecal", "main.ecal", "main.ecal", "src/main.ecal", "main.ecal"}
	var out []*packProject
	for k, d := range defs {
		p := &packProject{dir: filepath.Join(base, fmt.Sprintf("proj%d", k)), files: map[string]string{}, code: codes[k]}
		for name, content := range d {
			full := filepath.Join(p.dir, filepath.FromSlash(name))
			if err := os.MkdirAll(filepath.Dir(full), 0o755); err != nil {
				return nil, err
			}
			if err := os.WriteFile(full, []byte(content), 0o644); err != nil {
				return nil, err
			}
			p.files[name] = content
		}
		p.entry = filepath.Join(p.dir, filepath.FromSlash(entries[k]))
		p.entryText = d[entries[k]]
		if _, own := p.files[".ecalsrc-entry"]; !own {
			p.files[".ecalsrc-entry"] = d[entries[k]] // where the loader keeps the entry text
		}
		out = append(out, p)
	}
	return out, nil
}

// C20 is the driver of property C20.
func C20(r *ev.Run) {
	tier := r.Tier
	rng := rand.New(rand.NewSource(r.Seed))
	marker, b1, b2 := tool.VerifPackGeometry()
	genv := map[string]string{"VERIF_B1": strconv.Itoa(b1), "VERIF_B2": strconv.Itoa(b2), "VERIF_MLEN": strconv.Itoa(len(marker)), "VERIF_TIER": tier}
	r.Assume("the interpreter binary does not itself contain the complete marker; the marker has the shape newline, 4 x '#', text, 4 x '#', newline")
	r.Set("geometry", map[string]int{"b1": b1, "b2": b2, "marker": len(marker)})

	// 1. the scan loop as a model: the repaired loop satisfies AlwaysRuns for every length and content of the family,
	//    the loop of the pinned commit is refuted (the model can tell the difference)
	res := runMC(r, tlc.Options{Module: "MCPackScan", Config: "PackScan_code.cfg", Workers: 8, Timeout: 20 * time.Minute, Env: genv})
	if res == nil {
		return
	}
	if !res.OK {
		r.Drift("the model of the scan loop violates its invariants: " + res.Describe() + "\n" + res.Tail(12))
	}
	if res2 := runMC(r, tlc.Options{Module: "MCPackScan", Config: "PackScan_found.cfg", Workers: 8, Timeout: 20 * time.Minute, Env: genv}); res2 != nil && res2.OK {
		r.Inconclusive("self-test failed: the model of the loop at the pinned commit is not refuted")
		return
	}

	// 2. TLC writes the case universe (direction A)
	out := filepath.Join(os.TempDir(), fmt.Sprintf("verif-c20-cases-%d.ndjson", os.Getpid()))
	defer os.Remove(out)
	cenv := map[string]string{"VERIF_OUT": out}
	for k, v := range genv {
		cenv[k] = v
	}
	if res := runMC(r, tlc.Options{Module: "PackCases", Config: "PackCases.cfg", Workers: 1, Timeout: 20 * time.Minute, Args: []string{"-maxSetSize", "30000000"}, Env: cenv}); res == nil {
		return
	}
	var cases []*packCase
	if f, err := os.Open(out); err == nil {
		sc := bufio.NewScanner(f)
		sc.Buffer(make([]byte, 1<<20), 1<<20)
		for sc.Scan() {
			c := &packCase{}
			if json.Unmarshal(sc.Bytes(), c) == nil {
				cases = append(cases, c)
			}
		}
		f.Close()
	}
	if len(cases) < 1000 {
		r.Inconclusive("TLC did not write the case universe")
		return
	}
	// random cases: longer fillers, random marker-like content
	period := b1 + b2
	for k := 0; k < pick(tier, 2000, 20000); k++ {
		c := &packCase{L: rng.Intn(5 * period), N: "random"}
		if rng.Intn(3) == 0 {
			c.D.Stride = 1 + rng.Intn(2*b1)
			c.D.From = rng.Intn(c.L + 1)
		}
		for i, n := 0, rng.Intn(4); i < n; i++ {
			c.D.Singles = append(c.D.Singles, c.L-1-rng.Intn(c.L+1)%(1+rng.Intn(period+60)))
		}
		for i, n := 0, rng.Intn(3); i < n; i++ {
			ln := 1 + rng.Intn(len(marker)-1)
			pos := c.L - ln - 1 - rng.Intn(period+60)
			c.D.Partials = append(c.D.Partials, []int{pos, ln})
		}
		cases = append(cases, c)
	}

	// 3. every case: pack with the real packer, start the result with the real RunPackedBinary
	tmp, err := os.MkdirTemp("", "verif-c20-")
	if err != nil {
		r.Inconclusive(err.Error())
		return
	}
	defer os.RemoveAll(tmp)
	projects, err := makePackProjects(tmp)
	if err != nil {
		r.Inconclusive(err.Error())
		return
	}
	srcBin, dstBin := filepath.Join(tmp, "source.bin"), filepath.Join(tmp, "packed.bin")

	var trace []interface{}
	var recs []*packRec
	emit := func(rec *packRec) {
		recs = append(recs, rec)
		trace = append(trace, rec)
	}
	var cur []*packRec
	var gotFiles map[string]string
	var gotEntry string
	var filesErr error
	verifhook.Set(func(point string, args ...interface{}) {
		switch point {
		case "pack.block":
			cur = append(cur, &packRec{Ev: "block", Pos: int(args[0].(int64)), N: args[1].(int)})
		case "pack.scanned":
			cur = append(cur, &packRec{Ev: "scanned", Pos: int(args[0].(int64)), Found: args[1].(bool)})
		case "pack.files":
			gotFiles = args[0].(map[string]string)
			filesErr, _ = args[1].(error)
			gotEntry, _ = args[2].(string)
		}
	})
	defer verifhook.Set(func(string, ...interface{}) {})
	stdout := os.Stdout
	devnull, _ := os.OpenFile(os.DevNull, os.O_WRONLY, 0)
	defer devnull.Close()
	outcomes := map[string]int{}
	for k, c := range cases {
		if c.D.Singles == nil {
			c.D.Singles = []int{}
		}
		if c.D.Partials == nil {
			c.D.Partials = [][]int{}
		}
		proj := projects[k%len(projects)]
		if err := os.WriteFile(srcBin, c.filler(marker), 0o644); err != nil {
			r.Inconclusive(err.Error())
			return
		}
		dir, sb, tb := proj.dir, srcBin, dstBin
		packer := &tool.CLIPacker{EntryFile: proj.entry, Dir: &dir, SourceBinary: &sb, TargetBinary: &tb, LogOut: io.Discard}
		if err := packer.Pack(); err != nil {
			r.Inconclusive("Pack failed: " + err.Error())
			return
		}
		packed, err := os.ReadFile(dstBin)
		if err != nil || len(packed) < c.L+len(marker) || string(packed[c.L:c.L+len(marker)]) != marker {
			r.Violation("C20 packer output malformed", fmt.Sprintf("L=%d: the packed file does not consist of the binary followed by the marker", c.L), c)
			continue
		}
		zip := packed[c.L+len(marker):]
		d := c.D
		d.ZHash = []int{}
		for i, bt := range zip {
			if bt == '#' {
				d.ZHash = append(d.ZHash, i)
			}
		}
		emit(&packRec{Ev: "start", L: c.L, ZLen: len(zip), D: &d, caseIdx: k})
		// run
		cur, gotFiles, filesErr, gotEntry = nil, nil, nil, ""
		exitCode, exited := 0, false
		var handled error
		var stderr bytes.Buffer
		restore := tool.VerifSetIO([]string{dstBin}, func(code int) { exitCode, exited = code, true }, &stderr, func(e error) { handled = e })
		os.Stdout = devnull
		pm, hung := guarded(20*time.Second, func() { tool.RunPackedBinary() })
		os.Stdout = stdout
		restore()
		for _, rec := range cur {
			rec.caseIdx = k
			emit(rec)
		}
		end := &packRec{Ev: "end", caseIdx: k}
		switch {
		case hung != "":
			r.Inconclusive("RunPackedBinary did not return: " + hung)
			return
		case pm != "":
			end.Outcome = "panic"
		case exited:
			end.Outcome = "run"
			end.CodeOK = exitCode == proj.code && stderr.Len() == 0
			end.FilesOK = filesErr == nil && reflect.DeepEqual(gotFiles, proj.files) && gotEntry == proj.entryText
		case handled != nil:
			end.Outcome = "error"
		default:
			end.Outcome = "miss"
		}
		outcomes[end.Outcome]++
		emit(end)
		r.Case(fmt.Sprintf("%d/%s/%v/%d", c.L, c.N, c.D, k%len(projects)), c.L > 0)
		if k == len(cases)/2 {
			r.Sample(map[string]interface{}{"L": c.L, "content": c.N, "descriptor": d, "events": cur, "outcome": end.Outcome, "exit_code": exitCode, "files_recovered": len(gotFiles)})
		}
		if k%5000 == 0 {
			r.Checkpoint()
		}
	}
	r.Set("outcomes", outcomes)
	r.Set("cases", len(cases))

	// 4. the recorded scans through the actions of the model (direction B)
	cfg := "PackScan_Trace_code.cfg"
	if v := os.Getenv("VERIF_C20_VARIANT"); v != "" {
		cfg = "PackScan_Trace_" + v + ".cfg" // the model of the loop at the pinned commit, for experiments with old trees
	}
	bad, ok := validateTraceEnv(r, "PackScan_Trace", cfg, trace, 60*time.Minute, genv)
	if !ok {
		return
	}
	badCases := map[int]bool{}
	drifts := map[string]int{}
	for _, code := range bad {
		idx, clause := code/10, code%10
		rec := recs[idx-1]
		c := cases[rec.caseIdx]
		if clause == 1 {
			badCases[rec.caseIdx] = true
			sig, msg := packSignature(c, rec, b1, b2, len(marker))
			r.Violation(sig, msg, map[string]interface{}{"L": c.L, "content": c.N, "descriptor": c.D, "project": rec.caseIdx % len(projects), "outcome": rec.Outcome})
		} else {
			drifts[map[int]string{2: "block record the model does not produce", 3: "scanned record differs from the model", 4: "outcome differs from the model"}[clause]]++
			if len(drifts) <= 3 && drifts[map[int]string{2: "block record the model does not produce", 3: "scanned record differs from the model", 4: "outcome differs from the model"}[clause]] <= 3 {
				r.Drift(fmt.Sprintf("scan of L=%d content=%s %+v: record %d (%s pos=%d n=%d found=%v outcome=%s) is not a step of PackScan", c.L, c.N, c.D, idx, rec.Ev, rec.Pos, rec.N, rec.Found, rec.Outcome))
			}
		}
	}
	if len(drifts) > 0 {
		r.Set("drift_kinds", drifts)
	}
	r.AddTraces(int64(len(cases) - len(badCases)))
	if outcomes["run"] == 0 {
		r.Inconclusive("no packed program ran at all: the harness is not in place")
	}
}

// packSignature classifies a failing case by where the marker falls relative to the read geometry.
func packSignature(c *packCase, end *packRec, b1, b2, mlen int) (string, string) {
	msg := fmt.Sprintf("interpreter binary of %d bytes (content %s %+v): outcome %s code_ok=%v files_ok=%v", c.L, c.N, c.D, end.Outcome, end.CodeOK, end.FilesOK)
	switch end.Outcome {
	case "run":
		if !end.FilesOK {
			return "C20 recovered files differ from the project", msg
		}
		return "C20 exit code differs from the entry file's result", msg
	case "panic":
		return "C20 crash while scanning for the marker", msg
	case "error":
		return "C20 archive misread (error handler called)", msg
	}
	hashes := len(c.D.Singles) > 0 || c.D.Stride > 0 || len(c.D.Partials) > 0
	keys := []string{}
	if c.L%b1 > b1-mlen {
		keys = append(keys, "marker across a block end")
	}
	if hashes && c.L%(b1+b2) > b1+b2-mlen {
		keys = append(keys, "marker across the end of block + extension")
	}
	sort.Strings(keys)
	if len(keys) == 0 {
		keys = []string{"other alignment"}
	}
	return "C20 marker missed, ordinary command line would run: " + strings.Join(keys, " / "), msg
}
