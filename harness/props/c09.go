//go:build verif

package props

import (
	"encoding/json"
	"fmt"
	"math/rand"
	"os"
	"runtime"
	"sort"
	"strconv"
	"strings"
	"sync"
	"sync/atomic"
	"time"

	"github.com/krotik/ecal/engine/pool"
	"github.com/krotik/ecal/verifhook"

	"verif/harness/ev"
	"verif/harness/sched"
	"verif/harness/tlc"
)

// PoolOp is one client operation of a pool scenario.
type PoolOp struct {
	Op   string `json:"op"` // add | set | waitall | joinall
	T    int    `json:"t,omitempty"`
	N    int    `json:"n,omitempty"`
	Wait bool   `json:"wait,omitempty"`
}

// PoolScenario is shared by the TLA+ model (rendered to an MC module) and the real run.
type PoolScenario struct {
	Name     string              `json:"name"`
	MaxW     int                 `json:"maxw"`
	Tasks    int                 `json:"tasks"`
	Children map[int][]int       `json:"children,omitempty"`
	Needs    map[int][]int       `json:"needs,omitempty"` // a task ends only after these tasks were started (it blocks inside Run)
	GateQ    bool                `json:"gateq,omitempty"` // explore runs: the pool gets a task queue whose Size() is a gate
	Scripts  map[string][]PoolOp `json:"scripts"`
	Target   int                 `json:"target"` // worker count after the run (-1: not determined)
	Joined   bool                `json:"joined"`
	Live     bool                `json:"live"` // every accepted task must be started (a worker persists / join)
}

func (sc *PoolScenario) clients() []string {
	var cs []string
	for c := range sc.Scripts {
		cs = append(cs, c)
	}
	sort.Strings(cs)
	return cs
}

func tlaSeqInts(xs []int) string {
	var p []string
	for _, x := range xs {
		p = append(p, strconv.Itoa(x))
	}
	return "<<" + strings.Join(p, ", ") + ">>"
}

// renderMC renders the scenario as MC module + cfg for Pool.tla.
func (sc *PoolScenario) renderMC(variant string, hist, liveness bool) (mod, cfg string) {
	var b strings.Builder
	b.WriteString("---- MODULE MCPool ----\nEXTENDS Pool, Json\n")
	fmt.Fprintf(&b, "MC_Tasks == 1..%d\n", sc.Tasks)
	b.WriteString("MC_Children == [t \\in MC_Tasks |-> ")
	var keys []int
	for k := range sc.Children {
		keys = append(keys, k)
	}
	sort.Ints(keys)
	for _, k := range keys {
		fmt.Fprintf(&b, "IF t = %d THEN %s ELSE ", k, tlaSeqInts(sc.Children[k]))
	}
	b.WriteString("<<>>]\n")
	b.WriteString("MC_Needs == [t \\in MC_Tasks |-> ")
	var nkeys []int
	for k := range sc.Needs {
		nkeys = append(nkeys, k)
	}
	sort.Ints(nkeys)
	for _, k := range nkeys {
		fmt.Fprintf(&b, "IF t = %d THEN {%s} ELSE ", k, strings.Trim(tlaSeqInts(sc.Needs[k]), "<>"))
	}
	b.WriteString("{}]\n")
	cs := sc.clients()
	var q []string
	for _, c := range cs {
		q = append(q, strconv.Quote(c))
	}
	fmt.Fprintf(&b, "MC_Clients == {%s}\n", strings.Join(q, ", "))
	b.WriteString("MC_Script == [c \\in MC_Clients |-> ")
	for _, c := range cs {
		var ops []string
		for _, o := range sc.Scripts[c] {
			ops = append(ops, fmt.Sprintf("[op |-> %q, t |-> %d, n |-> %d, wait |-> %s]", o.Op, o.T, o.N, strings.ToUpper(strconv.FormatBool(o.Wait))))
		}
		fmt.Fprintf(&b, "IF c = %q THEN <<%s>> ELSE ", c, strings.Join(ops, ", "))
	}
	b.WriteString("<<>>]\n")
	fmt.Fprintf(&b, "MC_Converges == Converges(%d)\n", sc.Target)
	// behaviour export for the follow mode: print the history when no step is possible
	b.WriteString("Export == (~ ENABLED Next) => PrintT(<<\"BEHAVIOUR\", ToJson(hist)>>)\n")
	b.WriteString("====\n")
	var c strings.Builder
	if liveness {
		c.WriteString("SPECIFICATION FairSpec\n")
	} else {
		c.WriteString("SPECIFICATION Spec\n")
	}
	fmt.Fprintf(&c, "CONSTANTS\n MaxW = %d\n Tasks <- MC_Tasks\n Children <- MC_Children\n Needs <- MC_Needs\n Clients <- MC_Clients\n Script <- MC_Script\n Variant = %q\n RecordHist = %s\n",
		sc.MaxW, variant, strings.ToUpper(strconv.FormatBool(hist)))
	c.WriteString("INVARIANTS TypeOK AtMostOnce NoDrop NoDupInQueue WaitAllOK JoinAllOK\n")
	if sc.Live {
		c.WriteString("INVARIANT NoLostTask\n")
	}
	if hist {
		c.WriteString("INVARIANT Export\n")
	} else {
		c.WriteString("VIEW view\n")
	}
	hasWaitAll := false
	for _, ops := range sc.Scripts {
		for _, o := range ops {
			if o.Op == "waitall" {
				hasWaitAll = true
			}
		}
	}
	if liveness {
		// WaitAll is a sample-and-perturb loop (its own Broadcast wakes the idle workers it waits
		// for): its termination is probabilistic, not a consequence of fair scheduling, and C09
		// only states when it may return. Termination is checked for the other calls.
		if !hasWaitAll {
			c.WriteString("PROPERTY ClientsTerminate\n")
		}
		if sc.Live {
			c.WriteString("PROPERTY EventuallyStarted\n")
		}
		if sc.Target >= 0 {
			c.WriteString("PROPERTY MC_Converges\n")
		}
	}
	c.WriteString("CHECK_DEADLOCK FALSE\n")
	return b.String(), c.String()
}

// ---- scenarios ------------------------------------------------------------------------------

func poolScenarios(tier string) []*PoolScenario {
	add := func(t int) PoolOp { return PoolOp{Op: "add", T: t} }
	set := func(n int, w bool) PoolOp { return PoolOp{Op: "set", N: n, Wait: w} }
	wa := PoolOp{Op: "waitall"}
	ja := PoolOp{Op: "joinall"}
	scs := []*PoolScenario{
		{Name: "w1-single", MaxW: 1, Tasks: 1, Scripts: map[string][]PoolOp{"c1": {set(1, false), add(1)}}, Target: 1, Live: true},
		{Name: "w1-burst", MaxW: 1, Tasks: 3, Scripts: map[string][]PoolOp{"c1": {set(1, false), add(1), add(2), add(3)}}, Target: 1, Live: true},
		{Name: "w2-two-clients", MaxW: 2, Tasks: 3, Children: map[int][]int{1: {3}},
			Scripts: map[string][]PoolOp{"c1": {set(2, false), add(1)}, "c2": {add(2)}}, Target: 2, Live: true},
		{Name: "w2-waitall", MaxW: 2, Tasks: 3, Children: map[int][]int{2: {3}},
			Scripts: map[string][]PoolOp{"c1": {set(2, false), add(1), add(2), wa}}, Target: 2, Live: true},
		{Name: "w2-joinall", MaxW: 2, Tasks: 3, Children: map[int][]int{1: {3}},
			Scripts: map[string][]PoolOp{"c1": {set(2, false), add(1), add(2), ja}}, Target: 0, Joined: true, Live: true},
		{Name: "w2-shrink-nowait", MaxW: 2, Tasks: 2,
			Scripts: map[string][]PoolOp{"c1": {set(2, false), add(1), set(1, false), add(2)}}, Target: 1, Live: true},
		{Name: "w2-shrink-wait", MaxW: 2, Tasks: 2,
			Scripts: map[string][]PoolOp{"c1": {set(2, true), add(1), set(1, true), add(2), wa}}, Target: 1, Live: true},
		{Name: "w1-to-zero", MaxW: 1, Tasks: 1,
			Scripts: map[string][]PoolOp{"c1": {set(1, false), add(1), set(0, false)}}, Target: 0, Live: false},
		{Name: "w3-grow-shrink-grow", MaxW: 3, Tasks: 2,
			Scripts: map[string][]PoolOp{"c1": {set(1, false), add(1), set(2, false), set(1, true), set(2, false), add(2)}}, Target: 2, Live: true},
		{Name: "w2-shrink-nowait-regrow", MaxW: 3, Tasks: 2,
			Scripts: map[string][]PoolOp{"c1": {set(2, false), add(1), set(1, false), set(2, false), add(2)}}, Target: 2, Live: true},
		{Name: "w2-waitall-vs-shrink", MaxW: 2, Tasks: 1,
			Scripts: map[string][]PoolOp{"c1": {add(1), wa}, "c2": {set(2, false), set(1, false)}}, Target: -1, Live: false}, // WaitAll keeps waking the workers: no convergence claim
		{Name: "w3-waitall-vs-shrink2", MaxW: 3, Tasks: 2,
			Scripts: map[string][]PoolOp{"c1": {add(1), add(2), wa}, "c2": {set(3, false), set(1, false)}}, Target: -1, Live: false},
		{Name: "w2-waitall-vs-adder", MaxW: 2, Tasks: 2,
			Scripts: map[string][]PoolOp{"c1": {set(2, false), add(1), wa}, "c2": {add(2)}}, Target: 2, Live: true},
		// a burst for sleeping workers whose first task needs the second: both must get a worker
		{Name: "w2-dependent-pair", MaxW: 2, Tasks: 2, Needs: map[int][]int{1: {2}},
			Scripts: map[string][]PoolOp{"c1": {set(2, true), add(1), add(2)}}, Target: 2, Live: true},
		{Name: "w2-dependent-child", MaxW: 2, Tasks: 3, Children: map[int][]int{1: {2, 3}}, Needs: map[int][]int{2: {3}},
			Scripts: map[string][]PoolOp{"c1": {set(2, false), add(1)}}, Target: 2, Live: true},
	}
	if tier == "thorough" {
		scs = append(scs,
			&PoolScenario{Name: "w3-tree", MaxW: 3, Tasks: 5, Children: map[int][]int{1: {3, 4}, 3: {5}},
				Scripts: map[string][]PoolOp{"c1": {set(3, false), add(1), add(2), wa}}, Target: 3, Live: true},
			&PoolScenario{Name: "w2-join-vs-tasktree", MaxW: 2, Tasks: 4, Children: map[int][]int{1: {2, 3}, 2: {4}},
				Scripts: map[string][]PoolOp{"c1": {set(2, true), add(1), ja}}, Target: 0, Joined: true, Live: true},
			&PoolScenario{Name: "w3-barrier", MaxW: 3, Tasks: 3, Needs: map[int][]int{1: {2, 3}, 2: {3}},
				Scripts: map[string][]PoolOp{"c1": {set(3, true), add(1), add(2), add(3)}}, Target: 3, Live: true},
			&PoolScenario{Name: "w3-shrink2-nowait", MaxW: 3, Tasks: 3,
				Scripts: map[string][]PoolOp{"c1": {set(3, false), add(1), add(2), set(1, false), add(3), wa}}, Target: 1, Live: true},
		)
	}
	return scs
}

// ---- the real pool under the gate scheduler -----------------------------------------------------

var poolGates = map[string]bool{
	"pool.worker.head": true, "pool.getTask.kill": true, "pool.getTask.pop": true, "pool.idle.reg": true,
	"pool.idle.afterWake": true, "pool.worker.exit": true, "task.child": true,
	"task.start": true, "task.end": true, "client.op": true,
	"pool.setWorkers.grown": true, "pool.setWorkers.kill": true, "pool.setWorkers.broadcast": true,
	"pool.setWorkers.sample": true, "pool.setWorkers.idleWait": true, "pool.waitAll.sample": true,
	"pool.joinAll.set": true, "pool.joinAll.sample": true,
}

var poolPollGates = map[string]bool{
	"pool.setWorkers.sample": true, "pool.setWorkers.idleWait": true, "pool.waitAll.sample": true, "pool.joinAll.sample": true,
}

type hTask struct {
	id  int
	run *poolRun
}

func (t *hTask) Run(tid uint64) error {
	t.run.s.Gate("task.start", t.id)
	t.run.mu.Lock()
	t.run.count[t.id]++
	if t.run.count[t.id] == 1 {
		close(t.run.startedCh(t.id))
	}
	t.run.mu.Unlock()
	for _, ch := range t.run.sc.Children[t.id] {
		t.run.s.Gate("task.child", t.id, ch)
		if t.run.isClosed() {
			break
		}
		t.run.s.Record("p.accept", ch)
		t.run.tp.AddTask(&hTask{ch, t.run})
	}
	for _, n := range t.run.sc.Needs[t.id] {
		// the task needs another task of the pool (like a sink that waits for the cascade of an event it added): it
		// blocks until the pool has started that one on another worker, or the run is over
		t.run.mu.Lock()
		ch := t.run.startedCh(n)
		t.run.mu.Unlock()
		select {
		case <-ch:
		case <-t.run.over:
		}
	}
	t.run.s.Gate("task.end", t.id)
	return nil
}
func (t *hTask) HandleError(e error) {}

// startedCh returns the channel that is closed when task id starts (pr.mu is held).
func (pr *poolRun) startedCh(id int) chan struct{} {
	if pr.startCh[id] == nil {
		pr.startCh[id] = make(chan struct{})
	}
	return pr.startCh[id]
}

// gateQueue is a legal task queue of a client: the default FIFO queue whose Size() is a scheduling point. The pool
// asks for the size inside its critical sections (load regulation, the idle task between its look at the stop
// request and Cond.Wait), so the explore mode can hold a worker there and let the other threads move.
type gateQueue struct {
	pool.DefaultTaskQueue
	run *poolRun
}

func (q *gateQueue) Size() int {
	q.run.s.Gate("queue.size")
	return q.DefaultTaskQueue.Size()
}

type poolRun struct {
	sc      *PoolScenario
	s       *sched.Scheduler
	tp      *pool.ThreadPool
	mu      sync.Mutex
	count   map[int]int
	closed  int32 // set when the run is over: clients and tasks stop submitting
	startCh map[int]chan struct{}
	over    chan struct{} // closed when the run is over: tasks stop waiting for the tasks they need
}

func (pr *poolRun) isClosed() bool { return atomic.LoadInt32(&pr.closed) != 0 }

type poolRunResult struct {
	Outcome *sched.Outcome
	Events  []sched.Event
	P       []interface{} // property-level records of this run (without reset)
	Err     error
	WC      int
	Hung    bool
}

func stateCounts(tp *pool.ThreadPool) (wc, ic, q int, wids, iids []int) {
	st := tp.State()
	q = st["TaskQueueSize"].(int)
	for _, id := range st["TotalWorkerThreads"].([]uint64) {
		wids = append(wids, int(id))
	}
	for _, id := range st["IdleWorkerThreads"].([]uint64) {
		iids = append(iids, int(id))
	}
	sort.Ints(wids)
	sort.Ints(iids)
	return len(wids), len(iids), q, wids, iids
}

func newPoolRun(sc *PoolScenario, controlled bool) *poolRun {
	pr := &poolRun{sc: sc, s: sched.New(controlled), count: map[int]int{}, startCh: map[int]chan struct{}{}, over: make(chan struct{})}
	if sc.GateQ && controlled {
		pr.tp = pool.NewThreadPoolWithQueue(&gateQueue{run: pr})
	} else {
		pr.tp = pool.NewThreadPool()
	}
	pr.s.IsGate = func(p string, a []interface{}) bool { return poolGates[p] || (p == "queue.size" && !pr.isClosed()) }
	pr.s.NameOf = func(p string, a []interface{}) string {
		if p == "pool.worker.head" {
			return fmt.Sprintf("w%v", a[0])
		}
		return ""
	}
	verifhook.Set(pr.s.Handle)
	for _, c := range sc.clients() {
		c := c
		ops := sc.Scripts[c]
		pr.s.Spawn(c, func() {
			for i, op := range ops {
				if i > 0 {
					pr.s.Gate("client.op", i+1)
				}
				if pr.isClosed() {
					return
				}
				switch op.Op {
				case "add":
					pr.s.Record("p.accept", op.T)
					pr.tp.AddTask(&hTask{op.T, pr})
				case "set":
					pr.tp.SetWorkerCount(op.N, op.Wait)
					pr.s.Record("p.set_ret", op.N, op.Wait, pr.tp.WorkerCount())
				case "waitall":
					pr.s.Record("p.wa_call")
					pr.tp.WaitAll()
					pr.s.Record("p.wa_ret")
				case "joinall":
					pr.s.Record("p.ja_call")
					pr.tp.JoinAll()
					pr.s.Record("p.ja_ret", pr.tp.WorkerCount())
				}
			}
		})
	}
	return pr
}

// finish ends a run: compute the final record, then let everything go and stop the workers.
func (pr *poolRun) finish(out *sched.Outcome, err error) *poolRunResult {
	res := &poolRunResult{Outcome: out, Err: err}
	wc, _, _, _, _ := stateCounts(pr.tp)
	res.WC = wc
	if out != nil && out.Final != nil {
		for _, c := range pr.sc.clients() {
			if ts, ok := out.Final.Get(c); ok && !ts.Done {
				res.Hung = true
			}
		}
	}
	res.Events = pr.s.Events()
	res.P = poolProject(res.Events)
	res.P = append(res.P, map[string]interface{}{"ev": "final", "t": 0, "c": "", "wc": wc, "n": 0, "wait": false,
		"target": pr.sc.Target, "joined": pr.sc.Joined, "hung": res.Hung})
	// cleanup: stop recording, open the gates, stop the workers
	atomic.StoreInt32(&pr.closed, 1)
	close(pr.over)
	verifhook.Set(func(string, ...interface{}) {})
	pr.s.OpenAll()
	pr.s.WaitDone(pr.sc.clients(), 2*time.Second)
	done := make(chan struct{})
	go func() { pr.tp.SetWorkerCount(0, false); close(done) }() // (JoinAll would spin for ever on a queue without workers)
	select {
	case <-done:
	case <-time.After(2 * time.Second):
	}
	return res
}

// poolProject turns raw hook events into the property-level events of PoolP_Trace.
func poolProject(evs []sched.Event) []interface{} {
	var out []interface{}
	pending := map[string]int{}
	lastWASample := map[string]int{}
	rec := func(evn string, t int, c string, wc, n int, wait bool) {
		out = append(out, map[string]interface{}{"ev": evn, "t": t, "c": c, "wc": wc, "n": n, "wait": wait,
			"target": 0, "joined": false, "hung": false})
	}
	for _, e := range evs {
		switch e.Point {
		case "p.accept":
			pending[e.Th] = e.Args[0].(int)
		case "pool.addTask.pushed":
			if t, ok := pending[e.Th]; ok {
				rec("accept", t, "", 0, 0, false)
				delete(pending, e.Th)
			}
		case "task.start":
			rec("start", e.Args[0].(int), "", 0, 0, false)
		case "task.end":
			rec("end", e.Args[0].(int), "", 0, 0, false)
		case "p.wa_call":
			rec("wa_call", 0, e.Th, 0, 0, false)
		case "pool.waitAll.sample":
			lastWASample[e.Th] = e.Args[0].(int)
		case "p.wa_ret":
			rec("wa_ret", 0, e.Th, lastWASample[e.Th], 0, false)
		case "p.ja_call":
			rec("ja_call", 0, e.Th, 0, 0, false)
		case "p.ja_ret":
			rec("ja_ret", 0, e.Th, e.Args[0].(int), 0, false)
		case "p.set_ret":
			rec("set_ret", 0, e.Th, e.Args[2].(int), e.Args[0].(int), e.Args[1].(bool))
		}
	}
	return out
}

func runPoolExplore(sc *PoolScenario, ch sched.Chooser) *poolRunResult {
	pr := newPoolRun(sc, true)
	out, err := pr.s.Run(ch, 3000, func(p string) bool { return poolPollGates[p] })
	return pr.finish(out, err)
}

// ---- follow mode: replay behaviours of the model on the real pool ------------------------------------

var gateToPC = map[string]string{
	"pool.worker.head": "head", "pool.getTask.kill": "kill", "pool.getTask.pop": "pop", "pool.idle.reg": "idlereg",
	"pool.idle.afterWake": "afterwake", "pool.worker.exit": "exit", "task.start": "tstart",
	"task.child": "tchild", "task.end": "tend", "client.op": "ready", "spawn": "ready",
	"pool.setWorkers.grown": "grown", "pool.setWorkers.kill": "killset", "pool.setWorkers.broadcast": "bcast",
	"pool.setWorkers.sample": "setsample", "pool.setWorkers.idleWait": "idlewait", "pool.waitAll.sample": "wasample",
	"pool.joinAll.set": "joinset", "pool.joinAll.sample": "joinsample",
}

// the gate a thread must be parked at BEFORE the model action can be taken
var actionFrom = map[string]string{
	"W_Head": "head", "W_Kill": "kill", "W_Pop": "pop", "W_IdleReg": "idlereg", "W_Wake": "afterwake",
	"W_AfterWake": "afterwake", "W_TStart": "tstart", "W_TChild": "tchild", "W_TEnd": "tend", "W_Exit": "exit",
	"C_Add": "ready", "C_Set": "ready", "C_SetBroadcast": "killset",
	"C_SetAfterBroadcast": "bcast", "C_SetSample": "setsample", "C_SetGrown": "grown", "C_SetIdleWait": "idlewait",
	"C_WaitAll": "ready", "C_WaitAllSample": "wasample", "C_JoinAll": "ready", "C_JoinSet": "joinset", "C_JoinSample": "joinsample",
}

type histStep struct {
	Th    string `json:"th"`
	Act   string `json:"act"`
	Queue int    `json:"queue"`
	Idle  []int  `json:"idle"`
	All   []int  `json:"workers"`
}

func toInts(v interface{}) []int {
	var r []int
	if a, ok := v.([]interface{}); ok {
		for _, x := range a {
			r = append(r, int(x.(float64)))
		}
	}
	sort.Ints(r)
	return r
}

func parseBehaviour(js string) []histStep {
	var steps []histStep
	var raw [][]interface{}
	if json.Unmarshal([]byte(js), &raw) != nil {
		return nil
	}
	for _, e := range raw {
		th := ""
		switch v := e[0].(type) {
		case float64:
			th = fmt.Sprintf("w%d", int(v))
		case string:
			th = v
		}
		steps = append(steps, histStep{th, e[1].(string), int(e[2].(float64)), toInts(e[3]), toInts(e[4])})
	}
	return steps
}

// followPool replays one model behaviour; returns "" if the code followed, otherwise a drift description.
func followPool(sc *PoolScenario, steps []histStep) (drift string, res *poolRunResult) {
	pr := newPoolRun(sc, true)
	var out sched.Outcome
	for k, stp := range steps {
		st, err := pr.s.WaitStable()
		if err != nil {
			return "", pr.finish(&out, err)
		}
		out.Final = st
		ts, ok := st.Get(stp.Th)
		for wait := 0; !ok && wait < 200; wait++ {
			// a worker which was just started may not have reached its first hook yet (loaded machine)
			time.Sleep(10 * time.Millisecond)
			if st, err = pr.s.WaitStable(); err != nil {
				return "", pr.finish(&out, err)
			}
			out.Final = st
			ts, ok = st.Get(stp.Th)
		}
		if !ok {
			return fmt.Sprintf("step %d %v: thread does not exist", k, stp), pr.finish(&out, nil)
		}
		want := actionFrom[stp.Act]
		if k > 0 {
			// compare what ThreadPool.State() exposes with the model state after the previous step
			prev := steps[k-1]
			_, _, q, wids, iids := stateCounts(pr.tp)
			if q != prev.Queue || fmt.Sprint(wids) != fmt.Sprint(prev.All) || fmt.Sprint(iids) != fmt.Sprint(prev.Idle) {
				return fmt.Sprintf("after step %d %v/%v: pool state queue=%d idle=%v workers=%v, model queue=%d idle=%v workers=%v",
					k-1, prev.Th, prev.Act, q, iids, wids, prev.Queue, prev.Idle, prev.All), pr.finish(&out, nil)
			}
		}
		if stp.Act == "W_Wake" {
			// arrival: the woken worker must already have reached the gate behind Cond.Wait
			if gateToPC[ts.Parked] != "afterwake" {
				return fmt.Sprintf("step %d %v: worker not woken (parked=%q wait=%q)", k, stp, ts.Parked, ts.Wait), pr.finish(&out, nil)
			}
			continue
		}
		if gateToPC[ts.Parked] != want {
			return fmt.Sprintf("step %d %v: thread is at %q/%q, model expects %q", k, stp, ts.Parked, ts.Wait, want), pr.finish(&out, nil)
		}
		out.Schedule = append(out.Schedule, stp.Th)
		out.Steps++
		if err := pr.s.Release(stp.Th); err != nil {
			return fmt.Sprintf("step %d %v: %v", k, stp, err), pr.finish(&out, nil)
		}
	}
	st, err := pr.s.WaitStable()
	if err != nil {
		return "", pr.finish(&out, err)
	}
	out.Final = st
	// the behaviour ended in a state without successor: nothing may be parked at a gate
	if p := st.Parked(); len(p) > 0 {
		// a woken-by-arrival thread may sit at afterwake only if the model had W_Wake pending: not in a terminal state
		return fmt.Sprintf("after the last step the code can still move: %v", p), pr.finish(&out, nil)
	}
	out.Quiescent = !st.AllDone()
	return "", pr.finish(&out, nil)
}

// ---- the check ---------------------------------------------------------------------------------------

// C09 is the driver of property C09.
func C09(r *ev.Run) {
	tier := r.Tier
	rng := rand.New(rand.NewSource(r.Seed))
	scs := poolScenarios(tier)
	r.Assume("goroutine wait reasons of runtime.Stack identify blocked goroutines (Go " + "runtime of this image)")
	r.Assume("WaitAll with zero workers is outside the statement (C09 speaks of a pool with workers)")

	// 1. TLC: exhaustive model checking of the implementation-level model, safety + liveness;
	//    and the binding/vacuity self-test: the protocol as found (Guarded=FALSE) must be refuted.
	var jobs []*MCJob
	for _, sc := range scs {
		for _, live := range []bool{false, true} {
			if live && tier == "quick" && sc.MaxW > 2 && sc.Name != "w2-shrink-nowait-regrow" {
				continue
			}
			mod, cfg := sc.renderMC("code", false, live)
			jobs = append(jobs, &MCJob{Name: fmt.Sprintf("Pool/%s/liveness=%v", sc.Name, live),
				Files: map[string]string{"MCPool.tla": mod, "MCPool.cfg": cfg},
				Opt:   tlc.Options{Module: "MCPool", Config: "MCPool.cfg", Timeout: 15 * time.Minute}})
		}
	}
	if !runMCParallel(r, jobs, 4) {
		return
	}
	for _, j := range jobs {
		if !j.Res.OK {
			// the design-level model is refuted: by policy not a verdict on the code by itself
			r.Inconclusive(fmt.Sprintf("Pool model %s is refuted by TLC: %s\n%s", j.Name, j.Res.Describe(), j.Res.Tail(30)))
			return
		}
	}
	{
		// self-test: the protocol as found must be refuted (lost wake-up; resize that does not converge)
		var regrow *PoolScenario
		for _, sc := range scs {
			if sc.Name == "w2-shrink-nowait-regrow" {
				regrow = sc
			}
		}
		var pair *PoolScenario
		for _, sc := range scs {
			if sc.Name == "w2-dependent-pair" {
				pair = sc
			}
		}
		m1, c1 := scs[1].renderMC("found-wakeup", false, false)
		m2, c2 := regrow.renderMC("found-resize", false, true)
		m3, c3 := pair.renderMC("signal-if-first", false, false)
		st := []*MCJob{
			{Name: "Pool/selftest/found-wakeup", Files: map[string]string{"MCPool.tla": m1, "MCPool.cfg": c1}, Opt: tlc.Options{Module: "MCPool", Config: "MCPool.cfg", Timeout: 5 * time.Minute}},
			{Name: "Pool/selftest/found-resize", Files: map[string]string{"MCPool.tla": m2, "MCPool.cfg": c2}, Opt: tlc.Options{Module: "MCPool", Config: "MCPool.cfg", Timeout: 10 * time.Minute}},
			{Name: "Pool/selftest/signal-if-first", Files: map[string]string{"MCPool.tla": m3, "MCPool.cfg": c3}, Opt: tlc.Options{Module: "MCPool", Config: "MCPool.cfg", Timeout: 5 * time.Minute}},
		}
		if !runMCParallel(r, st, 3) {
			return
		}
		ok1 := strings.Contains(st[0].Res.Violated, "NoLostTask")
		ok2 := strings.Contains(st[1].Res.Violated, "Temporal") || st[1].Res.ExitCode == 13
		ok3 := strings.Contains(st[2].Res.Violated, "NoLostTask")
		r.Set("selftest_found_wakeup_refuted", ok1)
		r.Set("selftest_found_resize_refuted", ok2)
		r.Set("selftest_signal_if_first_refuted", ok3)
		if !ok1 || !ok2 || !ok3 {
			r.Inconclusive("self-test: TLC did not refute the protocol as found: " + st[0].Res.Describe() + " / " + st[1].Res.Describe() + " / " + st[2].Res.Describe())
			return
		}
	}

	var trace []interface{}
	type runInfo struct {
		sc       *PoolScenario
		schedule []string
		mode     string
		start    int
		res      *poolRunResult
	}
	var runs []runInfo
	addRun := func(sc *PoolScenario, mode string, res *poolRunResult) {
		trace = append(trace, map[string]interface{}{"ev": "reset", "t": 0, "c": sc.Name, "wc": 0, "n": len(runs), "wait": false, "target": 0, "joined": false, "hung": false})
		ri := runInfo{sc: sc, mode: mode, start: len(trace), res: res}
		if res.Outcome != nil {
			ri.schedule = res.Outcome.Schedule
		}
		trace = append(trace, res.P...)
		runs = append(runs, ri)
		key := sc.Name + ":" + strings.Join(ri.schedule, ",")
		r.Case(key, len(ri.schedule) > 3)
	}

	// 2. direction A: behaviours of the model (TLC simulation) followed on the real pool
	driftBudget := map[string]int{}
	nBeh := pick(tier, 40, 400)
	followed, drifted := 0, 0
	for _, sc := range scs {
		mod, cfg := sc.renderMC("code", true, false)
		dir, _ := tmpSpecDir(map[string]string{"MCPool.tla": mod, "MCPool.cfg": cfg})
		res := runMC(r, tlc.Options{SpecDir: dir, Module: "MCPool", Config: "MCPool.cfg", Workers: 1, Timeout: 5 * time.Minute,
			Args: []string{"-simulate", fmt.Sprintf("num=%d", nBeh), "-depth", "400", "-seed", strconv.FormatInt(r.Seed, 10)}})
		os.RemoveAll(dir)
		if res == nil {
			return
		}
		lines := res.Printed("BEHAVIOUR")
		if len(lines) == 0 {
			r.Inconclusive("no behaviours exported for " + sc.Name + ": " + res.Tail(10))
			return
		}
		seen := map[string]bool{}
		for _, l := range lines {
			if seen[l] {
				continue
			}
			seen[l] = true
			steps := parseBehaviour(l)
			if len(steps) == 0 {
				r.Inconclusive("cannot parse behaviour: " + l)
				return
			}
			drift, rr := followPool(sc, steps)
			if rr.Err != nil {
				r.Inconclusive("follow " + sc.Name + ": " + rr.Err.Error())
				return
			}
			if drift != "" {
				drifted++
				r.Drift(fmt.Sprintf("%s: %s", sc.Name, drift))
				// judge at property level with extra exploration (bounded per scenario)
				driftBudget[sc.Name]++
				for k := 0; k < 20 && driftBudget[sc.Name] <= 5; k++ {
					rr2 := runPoolExplore(sc, &sched.RandomChooser{R: rng})
					if rr2.Err != nil {
						r.Inconclusive("explore " + sc.Name + ": " + rr2.Err.Error())
						return
					}
					addRun(sc, "explore-after-drift", rr2)
				}
				continue
			}
			followed++
			addRun(sc, "follow", rr)
			if followed == 1 {
				r.Sample(map[string]interface{}{"mode": "follow", "scenario": sc.Name, "behaviour": steps, "property_level_trace": rr.P})
			}
		}
	}
	r.Set("behaviours_followed", followed)
	r.Set("behaviours_drifted", drifted)

	// 3. direction B: random / PCT schedules of the real goroutines through the gates
	nExp := pick(tier, 60, 600)
	for _, sc := range scs {
		for k := 0; k < nExp; k++ {
			var ch sched.Chooser
			if k%2 == 0 {
				ch = &sched.RandomChooser{R: rng}
			} else {
				pct := sched.NewPCT(rng, 60, 3)
				pct.IsPoll = func(p string) bool { return poolPollGates[p] }
				ch = pct
			}
			scx, mode := sc, "explore"
			if k%4 >= 2 {
				// the same scenario on a pool with a client-supplied queue whose Size() is a scheduling point
				cp := *sc
				cp.GateQ = true
				scx, mode = &cp, "explore-gateq"
				// keep a thread inside such a critical section for as long as others can move (mostly); in every
				// second run the workers go first, so the client calls arrive while a worker sits in the section
				hc := &holdChooser{R: rng, Hold: "queue.size", P: 0.9}
				if k%4 == 2 {
					hc.First = func(n string) bool { return strings.HasPrefix(n, "w") }
				}
				ch = hc
			}
			rr := runPoolExplore(scx, ch)
			if rr.Err != nil {
				r.Inconclusive("explore " + sc.Name + ": " + rr.Err.Error())
				return
			}
			addRun(scx, mode, rr)
		}
	}
	// free runs (no gates): many workers, bursts
	nFree := pick(tier, 20, 200)
	for k := 0; k < nFree; k++ {
		sc := freePoolScenario(rng, k)
		pr := newPoolRun(sc, false)
		deadline := time.Now().Add(20 * time.Second)
		var st *sched.Stable
		var err error
		for {
			st, err = pr.s.WaitStable()
			if err != nil {
				break
			}
			// permanently quiescent: every client ended and every worker is gone or inside Cond.Wait
			settled := true
			for _, t := range st.Threads {
				if !t.Done && t.Wait != "sync.Cond.Wait" {
					settled = false
				}
			}
			if settled {
				break
			}
			if time.Now().After(deadline) {
				err = sched.ErrTimeout
				break
			}
			time.Sleep(100 * time.Microsecond)
		}
		out := &sched.Outcome{Final: st}
		rr := pr.finish(out, err)
		if rr.Err != nil {
			r.Inconclusive("free run: " + rr.Err.Error())
			return
		}
		addRun(sc, "free", rr)
	}

	// 3b. single-worker hammer: back-to-back submissions to a pool whose only worker keeps going idle.
	//     Windows inside one gate-to-gate region of the worker are only reachable with real parallelism.
	nHam := pick(tier, 300000, 3000000)
	if lostAt, detail := poolHammer(nHam); lostAt > 0 {
		sc := &PoolScenario{Name: "hammer-w1", MaxW: 1, Tasks: lostAt, Target: 1, Live: true}
		rr := &poolRunResult{P: []interface{}{
			map[string]interface{}{"ev": "accept", "t": lostAt, "c": "", "wc": 0, "n": 0, "wait": false, "target": 0, "joined": false, "hung": false},
			map[string]interface{}{"ev": "final", "t": 0, "c": "", "wc": 1, "n": 0, "wait": false, "target": 1, "joined": false, "hung": false}},
			Outcome: &sched.Outcome{Schedule: []string{"free", detail}}}
		addRun(sc, "hammer", rr)
	}
	r.Set("hammer_submissions", nHam)

	// 4. validation of all recorded runs against the property-level specification
	bad, ok := validateTrace(r, "PoolP_Trace", "PoolP_Trace.cfg", trace, 10*time.Minute)
	if !ok {
		return
	}
	r.AddTraces(int64(len(runs) - len(bad)))
	r.Set("runs", len(runs))
	r.Set("trace_events", len(trace))
	for _, idx := range bad {
		// find the run
		var ri *runInfo
		for k := range runs {
			if runs[k].start < idx {
				ri = &runs[k]
			}
		}
		evt, _ := json.Marshal(trace[idx-1])
		sig := fmt.Sprintf("C09 %s rejected-event=%s", ri.sc.Name, poolEventClass(trace[idx-1]))
		r.Violation(sig, fmt.Sprintf("real pool run (%s, scenario %s) rejected by PoolP_Trace at event %s", ri.mode, ri.sc.Name, evt),
			map[string]interface{}{"scenario": ri.sc, "mode": ri.mode, "schedule": ri.schedule, "trace": ri.res.P})
	}
	if len(runs) > 0 {
		r.Sample(map[string]interface{}{"mode": runs[len(runs)-1].mode, "scenario": runs[len(runs)-1].sc.Name, "property_level_trace": runs[len(runs)-1].res.P})
	}
}

// holdChooser keeps a thread which is parked at the gate Hold inside its critical section while others can move:
// with probability P it picks by rank - threads for which First holds and which are not at Hold, then the other
// threads which are neither at Hold nor at a polling gate, then the threads at Hold, then the pollers. With
// First = workers the workers run until they sit in the section or sleep and the next client call arrives then.
type holdChooser struct {
	R     *rand.Rand
	Hold  string
	P     float64
	First func(name string) bool
	seen  map[string]bool // threads whose present passage through Hold is held (decided by a coin on arrival)
}

func (c *holdChooser) Choose(step int, parked []string, st *sched.Stable) string {
	if c.R.Float64() >= c.P {
		return parked[c.R.Intn(len(parked))]
	}
	ranks := make([][]string, 4)
	if c.seen == nil {
		c.seen = map[string]bool{}
	}
	for n := range c.seen {
		if ts, ok := st.Get(n); !ok || ts.Parked != c.Hold {
			delete(c.seen, n)
		}
	}
	for _, n := range parked {
		ts, _ := st.Get(n)
		if ts.Parked == c.Hold && !c.seen[n] {
			if (c.First != nil && !c.First(n)) || c.R.Intn(2) == 0 {
				return n // a passage which is not held
			}
			c.seen[n] = true
		}
		k := 1
		switch {
		case poolPollGates[ts.Parked]:
			k = 3
		case ts.Parked == c.Hold:
			k = 2
		case c.First != nil && c.First(n):
			k = 0
		}
		ranks[k] = append(ranks[k], n)
	}
	for _, r := range ranks {
		if len(r) > 0 {
			return r[c.R.Intn(len(r))]
		}
	}
	return parked[0]
}

type fnTask struct{ f func() }

func (t *fnTask) Run(tid uint64) error { t.f(); return nil }
func (t *fnTask) HandleError(e error)  {}

// poolHammer submits n tasks one after the other to a one-worker pool and waits for each to start.
// Returns the number of the submission that was never started (the worker sits in Cond.Wait with
// the task queued and nobody else will call the pool), 0 if all were started.
func poolHammer(n int) (int, string) {
	verifhook.Set(func(string, ...interface{}) {})
	tp := pool.NewThreadPool()
	tp.SetWorkerCount(1, false)
	defer func() {
		done := make(chan struct{})
		go func() { tp.SetWorkerCount(0, false); close(done) }()
		select {
		case <-done:
		case <-time.After(2 * time.Second):
		}
	}()
	var started int64
	task := &fnTask{func() { atomic.AddInt64(&started, 1) }}
	workerWaiting := func() bool {
		buf := make([]byte, 1<<18)
		m := runtime.Stack(buf, true)
		for _, blk := range strings.Split(string(buf[:m]), "\n\n") {
			if strings.Contains(blk, "pool.(*ThreadPoolWorker).run") {
				return strings.Contains(strings.SplitN(blk, "\n", 2)[0], "[sync.Cond.Wait")
			}
		}
		return false
	}
	for i := 1; i <= n; i++ {
		tp.AddTask(task)
		spins := 0
		for atomic.LoadInt64(&started) != int64(i) {
			spins++
			if spins%4000 == 0 {
				_, ic, q, _, _ := stateCounts(tp)
				if q == 1 && ic == 1 && workerWaiting() {
					// confirm: still the same a moment later -> permanent
					time.Sleep(2 * time.Millisecond)
					_, ic2, q2, _, _ := stateCounts(tp)
					if q2 == 1 && ic2 == 1 && workerWaiting() && atomic.LoadInt64(&started) != int64(i) {
						return i, fmt.Sprintf("submission %d: queue=1, the only worker is in sync.Cond.Wait", i)
					}
				}
			}
			if spins%64 == 0 {
				runtime.Gosched()
			}
		}
	}
	return 0, ""
}

func poolEventClass(e interface{}) string {
	m := e.(map[string]interface{})
	return fmt.Sprint(m["ev"])
}

func freePoolScenario(rng *rand.Rand, k int) *PoolScenario {
	w := 1 + rng.Intn(16)
	n := 5 + rng.Intn(60)
	sc := &PoolScenario{Name: fmt.Sprintf("free-w%d-t%d", w, n), MaxW: w, Tasks: n, Children: map[int][]int{}, Scripts: map[string][]PoolOp{}, Target: w, Live: true}
	next := 1
	nclients := 1 + rng.Intn(3)
	roots := n / 2
	if roots < 1 {
		roots = 1
	}
	var rootIDs []int
	for i := 0; i < roots; i++ {
		rootIDs = append(rootIDs, next)
		next++
	}
	// remaining tasks are children of earlier tasks
	for next <= n {
		p := 1 + rng.Intn(next-1)
		sc.Children[p] = append(sc.Children[p], next)
		next++
	}
	ops := map[string][]PoolOp{}
	ops["c1"] = append(ops["c1"], PoolOp{Op: "set", N: w, Wait: rng.Intn(2) == 0})
	for _, t := range rootIDs {
		c := fmt.Sprintf("c%d", 1+rng.Intn(nclients))
		ops[c] = append(ops[c], PoolOp{Op: "add", T: t})
	}
	switch k % 3 {
	case 1:
		ops["c1"] = append(ops["c1"], PoolOp{Op: "waitall"})
	case 2:
		if nclients == 1 {
			ops["c1"] = append(ops["c1"], PoolOp{Op: "joinall"})
			sc.Joined = true
			sc.Target = 0
		}
	}
	sc.Scripts = ops
	return sc
}
