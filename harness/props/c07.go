//go:build verif

package props

import (
	"fmt"
	"math/rand"
	"runtime"
	"strings"
	"time"

	"github.com/krotik/ecal/interpreter"
	"github.com/krotik/ecal/parser"
	"github.com/krotik/ecal/util"
	"github.com/krotik/ecal/verifhook"

	"verif/harness/ev"
	"verif/harness/tlc"
)

type treeJSON struct {
	N string      `json:"n"`
	C []*treeJSON `json:"c"`
}

func toTreeJSON(n *parser.ASTNode) *treeJSON {
	if n == nil {
		return &treeJSON{N: "<nil>", C: []*treeJSON{}}
	}
	t := &treeJSON{N: n.Name, C: []*treeJSON{}}
	for _, c := range n.Children {
		t.C = append(t.C, toTreeJSON(c))
	}
	return t
}

type parseRec struct {
	ID      string    `json:"id"`
	Input   string    `json:"input"`
	HasTree bool      `json:"hastree"`
	HasErr  bool      `json:"haserr"`
	ErrPos  bool      `json:"errpos"`
	Tree    *treeJSON `json:"tree"`
	Leaks   int       `json:"leaks"`
	Walk    string    `json:"walk"`
	Err     string    `json:"err"`
}

// lexerGoroutinesBlocked counts goroutines inside the lexer which are blocked in a channel send.
func lexerGoroutinesBlocked() int {
	buf := make([]byte, 1<<20)
	for {
		n := runtime.Stack(buf, true)
		if n < len(buf) {
			buf = buf[:n]
			break
		}
		buf = make([]byte, 2*len(buf))
	}
	cnt := 0
	for _, blk := range strings.Split(string(buf), "\n\n") {
		if strings.Contains(blk, "parser.(*lexer)") && strings.Contains(strings.SplitN(blk, "\n", 2)[0], "[chan send") {
			cnt++
		}
	}
	return cnt
}

var leakBase, leaksSeen int
var c07ErpInst *interpreter.ECALRuntimeProvider

func c07Erp() *interpreter.ECALRuntimeProvider {
	if c07ErpInst == nil {
		c07ErpInst = interpreter.NewECALRuntimeProvider("c07", nil, util.NewMemoryLogger(10))
		c07ErpInst.Cron.Stop()
	}
	return c07ErpInst
}

// parseOne runs the real parser on one input and records the outcome.
func parseOne(id, input string) (*parseRec, string) {
	rec := &parseRec{ID: id, Input: input, Walk: "ok", Tree: &treeJSON{N: "none", C: []*treeJSON{}}}
	g0 := runtime.NumGoroutine()
	var ast *parser.ASTNode
	var err error
	pm, hung := guarded(5*time.Second, func() { ast, err = parser.Parse("c07", input) })
	if pm != "" {
		return nil, "parser.Parse panicked: " + pm
	}
	if hung != "" {
		return nil, "parser.Parse does not terminate: " + hung
	}
	rec.HasTree = ast != nil
	rec.HasErr = err != nil
	if err != nil {
		rec.Err = err.Error()
		if pe, ok := err.(*parser.Error); ok {
			rec.ErrPos = pe.Line >= 1
		}
	}
	if ast != nil {
		rec.Tree = toTreeJSON(ast)
		if err == nil {
			// the operational reading of "well-formed": validation and pretty printing can walk the tree
			if pm, _ := guarded(5*time.Second, func() { parser.PrettyPrint(ast) }); pm != "" {
				rec.Walk = "PrettyPrint panicked: " + firstWords(pm, 10)
			}
			if pm, _ := guarded(5*time.Second, func() {
				if rast, rerr := parser.ParseWithRuntime("c07", input, c07Erp()); rerr == nil {
					rast.Runtime.Validate()
				}
			}); pm != "" {
				rec.Walk = "Validate panicked: " + firstWords(pm, 10)
			}
		}
	}
	// anything left running? the goroutine dump decides (a lexer goroutine which is still on its way out is
	// not in [chan send]; one that is stays there for ever)
	if leaksSeen < 50 {
		_ = g0
		now := lexerGoroutinesBlocked()
		if now > leakBase {
			// make sure it is not a send that a draining receiver is about to take
			time.Sleep(200 * time.Microsecond)
			now = lexerGoroutinesBlocked()
		}
		if now > leakBase {
			rec.Leaks = now - leakBase
			leakBase = now
			leaksSeen++
		}
	}
	return rec, ""
}

var c07Alphabet = []string{"{", "}", "(", ")", "[", "]", ";", ",", ":=", ":", "if", "for", "try", "except", "func", "sink", "mutex", "return", "a", "1", "\"s\"", "\n", "+", "in", "else", "finally", "not", "."}

var c07Corpus = []string{
	"a := 1\nb := a + 2 * (3 - 1)",
	"if a == 1 { b := 1 } elif a > 2 { b := 2 } else { b := 3 }",
	"for i in range(1, 5) { if i % 2 == 0 { continue } ; log(i) }",
	"for a < 10 { a := a + 1; break }",
	"func f(a, b=2) { return a + b }\nres := f(1)",
	"try { raise(\"E\", \"d\", [1]) } except \"E\", \"F\" as e { log(e) } except { x := 1 } otherwise { y := 2 } finally { z := 3 }",
	"m := {\"a\" : 1, 2 : [1, 2, {3 : 4}]}\nm.a := m[2][1]",
	"sink s1 kindmatch [\"a.*\"], scopematch [], statematch {\"k\" : NULL}, priority 2, suppresses [\"s2\"] { log(event) }",
	"mutex m1 { a := 1 ; b := \"x{{a}}\" }",
	"import \"foo/bar\" as fb\nlet q := fb.x(1)[0].y",
	"a := not b and c or d in [1,2] like \"x\" hasprefix \"y\"",
	"x := -a + +b // 2 % 3 >= 1 != true",
	"/* c1 */ a := 1 # c2\n# c3\nb := 2",
}

// chunks splits a source at token boundaries (using the real lexer's offsets).
func chunks(src string) []string {
	toks := parser.LexToList("c07", src)
	var cuts []int
	for _, t := range toks {
		if t.ID == parser.TokenEOF || t.ID == parser.TokenError {
			continue
		}
		p := t.Pos
		if t.ID == parser.TokenPOSTCOMMENT {
			p--
		} else if t.ID == parser.TokenPRECOMMENT {
			p -= 2
		}
		if p >= 0 && p <= len(src) {
			cuts = append(cuts, p)
		}
	}
	var out []string
	for i, c := range cuts {
		end := len(src)
		if i+1 < len(cuts) {
			end = cuts[i+1]
		}
		if end > c {
			out = append(out, src[c:end])
		}
	}
	return out
}

func mutate(rng *rand.Rand, src string) string {
	cs := chunks(src)
	if len(cs) == 0 {
		return src
	}
	for m := 0; m < 1+rng.Intn(2); m++ {
		i := rng.Intn(len(cs))
		switch rng.Intn(6) {
		case 0: // delete
			cs = append(cs[:i], cs[i+1:]...)
		case 1: // duplicate
			cs = append(cs[:i+1], cs[i:]...)
		case 2: // swap
			j := rng.Intn(len(cs))
			cs[i], cs[j] = cs[j], cs[i]
		case 3: // stray terminator / bracket
			ins := []string{") ", "; ", "} ", "{ ", "] ", ", ", "( ", ":= "}[rng.Intn(8)]
			cs = append(cs[:i], append([]string{ins}, cs[i:]...)...)
		case 4: // truncate
			cs = cs[:i]
		default: // replace by another token
			cs[i] = c07Alphabet[rng.Intn(len(c07Alphabet))] + " "
		}
		if len(cs) == 0 {
			break
		}
	}
	return strings.Join(cs, "")
}

// C07 is the driver of property C07.
func C07(r *ev.Run) {
	tier := r.Tier
	rng := rand.New(rand.NewSource(r.Seed))
	verifhook.Set(func(string, ...interface{}) {})
	r.Assume("a goroutine inside parser.(*lexer) blocked in [chan send] after Parse returned can never proceed (nobody holds the channel): counted as leaked")

	// 1. TLC: lexer goroutine / channel / look-ahead buffer / parser exit protocol
	jobs := []*MCJob{
		{Name: "ParseProc/drained", Opt: tlc.Options{Module: "ParseProc", Config: "ParseProc_drained.cfg", Timeout: 5 * time.Minute, Workers: 2}},
		{Name: "ParseProc/found", Opt: tlc.Options{Module: "ParseProc", Config: "ParseProc_found.cfg", Timeout: 5 * time.Minute, Workers: 2}},
	}
	if !runMCParallel(r, jobs, 2) {
		return
	}
	if !jobs[0].Res.OK {
		r.Inconclusive("ParseProc model refuted: " + jobs[0].Res.Describe())
		return
	}
	r.Set("selftest_undrained_channel_refuted", jobs[1].Res.Violated != "")
	if jobs[1].Res.Violated == "" {
		r.Inconclusive("self-test: TLC did not refute the parser exit without draining")
		return
	}

	// 2. inputs on the real parser
	leakBase = lexerGoroutinesBlocked()
	var inputs [][2]string
	maxLen := pick(tier, 3, 4)
	var gen func(prefix []string)
	gen = func(prefix []string) {
		if len(prefix) > 0 {
			inputs = append(inputs, [2]string{"seq:" + strings.Join(prefix, " "), strings.Join(prefix, " ")})
		}
		if len(prefix) == maxLen {
			return
		}
		for _, a := range c07Alphabet {
			gen(append(append([]string{}, prefix...), a))
		}
	}
	gen(nil)
	for k, src := range c07Corpus {
		inputs = append(inputs, [2]string{fmt.Sprintf("corpus%d", k), src})
	}
	// braces where the guard of an if / for statement expects an operand (there the brace starts a block, not a map):
	// every sequence of up to 5 (6) tokens behind the guard prefixes
	guardTail := []string{"{", "}", "a", ":", "1"}
	var tails [][]string
	var genTail func(prefix []string, n int)
	genTail = func(prefix []string, n int) {
		if len(prefix) > 0 {
			tails = append(tails, prefix)
		}
		if len(prefix) == n {
			return
		}
		for _, a := range guardTail {
			genTail(append(append([]string{}, prefix...), a), n)
		}
	}
	genTail(nil, pick(tier, 5, 6))
	for _, pre := range []string{"if a ==", "if", "if not", "if a and", "for a in", "for", "for a >", "if a { } elif b +", "for [ a , b ] in", "if (", "if a [", "try { } except a =="} {
		for _, t := range tails {
			src := pre + " " + strings.Join(t, " ")
			inputs = append(inputs, [2]string{"guard:" + src, src})
		}
	}
	nMut := pick(tier, 6000, 80000)
	for k := 0; k < nMut; k++ {
		src := c07Corpus[rng.Intn(len(c07Corpus))]
		inputs = append(inputs, [2]string{fmt.Sprintf("mut%d", k), mutate(rng, src)})
	}
	nRnd := pick(tier, 1500, 15000)
	for k := 0; k < nRnd; k++ {
		n := rng.Intn(24)
		b := make([]byte, n)
		for i := range b {
			switch rng.Intn(4) {
			case 0:
				b[i] = byte(rng.Intn(256))
			case 1:
				const special = "{}()[];:=\"'#/*\n\\ rif"
				b[i] = special[rng.Intn(len(special))]
			default:
				b[i] = byte(32 + rng.Intn(95))
			}
		}
		inputs = append(inputs, [2]string{fmt.Sprintf("bytes%d", k), string(b)})
	}
	var trace []interface{}
	var recs []*parseRec
	for _, in := range inputs {
		rec, fault := parseOne(in[0], in[1])
		r.Case(in[1], len(in[1]) > 3)
		if fault != "" {
			r.Violation("C07 "+firstWords(fault, 4), fault+fmt.Sprintf(" (input %q)", in[1]), map[string]interface{}{"input": in[1]})
			if strings.Contains(fault, "terminate") {
				break
			}
			continue
		}
		recs = append(recs, rec)
		trace = append(trace, rec)
	}
	if len(recs) > 0 {
		r.Sample(recs[len(recs)/2])
	}
	bad, ok := validateTrace(r, "Parse_Trace", "Parse_Trace.cfg", trace, 30*time.Minute)
	if !ok {
		return
	}
	badRecs := map[int]bool{}
	clauseName := map[int]string{1: "tree and error together (or neither)", 2: "error without position", 3: "malformed tree", 4: "lexer goroutine left blocked", 5: "tree cannot be walked"}
	for _, code := range bad {
		idx, clause := code/10, code%10
		badRecs[idx] = true
		rec := recs[idx-1]
		sig := "C07 " + clauseName[clause]
		if clause == 2 {
			sig += ": " + errKind(rec.Err)
		}
		if clause == 3 {
			sc := shapeComplaint(rec.Tree)
			if sc == "" {
				sc = "node with an unexpected number or kind of children"
			}
			sig += ": " + sc
		}
		r.Violation(sig, fmt.Sprintf("input %q: hastree=%v haserr=%v (%s) leaks=%d walk=%s", rec.Input, rec.HasTree, rec.HasErr, rec.Err, rec.Leaks, rec.Walk), rec)
	}
	r.AddTraces(int64(len(recs) - len(badRecs)))
	r.Set("inputs", len(inputs))
}

// errKind extracts the error type text of a parser error message ("Parse error in x: <type> ...").
func errKind(msg string) string {
	parts := strings.SplitN(msg, ": ", 2)
	if len(parts) < 2 {
		return msg
	}
	k := parts[1]
	if i := strings.Index(k, " ("); i >= 0 {
		k = k[:i]
	}
	return k
}

// shapeComplaint names the first suspicious node of a tree (only used to give a failure its signature;
// the verdict comes from the shape table of Parse_Trace.tla).
func shapeComplaint(t *treeJSON) string {
	if t == nil {
		return "?"
	}
	if t.N == "<nil>" {
		return "missing (nil) node"
	}
	if t.N == "map" {
		for _, c := range t.C {
			if c.N != "kvp" {
				return "map item that is not a key-value pair"
			}
		}
	}
	for _, c := range t.C {
		if s := shapeComplaint(c); s != "" {
			return s
		}
	}
	if t.N == "" || t.N == "EOF" {
		return "node without a kind"
	}
	return ""
}
