//go:build verif

package props

import (
	"encoding/json"
	"fmt"
	"math/rand"
	"os"
	"path/filepath"
	"regexp"
	"strings"
	"time"

	"github.com/krotik/ecal/cli/tool"
	"github.com/krotik/ecal/parser"
	"github.com/krotik/ecal/verifhook"

	"verif/harness/ev"
	"verif/harness/tlc"
)

type fmtTree struct {
	N   string     `json:"n"`
	V   string     `json:"v"`
	Esc bool       `json:"esc"`
	C   []*fmtTree `json:"c"`
}

func toFmtTree(n *parser.ASTNode) *fmtTree {
	if n == nil {
		return &fmtTree{N: "<nil>", C: []*fmtTree{}}
	}
	t := &fmtTree{N: n.Name, C: []*fmtTree{}}
	if n.Token != nil {
		t.V = n.Token.Val
		t.Esc = n.Token.AllowEscapes
	}
	for _, c := range n.Children {
		t.C = append(t.C, toFmtTree(c))
	}
	return t
}

type fmtRec struct {
	pieces  []fmtPiece
	Src     string   `json:"src"`
	S1      string   `json:"s1"`
	Reparse bool     `json:"reparse"`
	T0      *fmtTree `json:"t0"`
	T1      *fmtTree `json:"t1"`
	Idem    bool     `json:"idem"`
	Fault   string   `json:"fault"`
	ReErr   string   `json:"reerr"`
}

// formatCase runs parse -> print -> parse -> print on the real code. ok=false: the source does not parse (not a case).
func formatCase(src string) (*fmtRec, bool) {
	none := &fmtTree{N: "none", C: []*fmtTree{}}
	rec := &fmtRec{Src: src, T0: none, T1: none}
	ast, err := parser.Parse("c08", src)
	if err != nil || ast == nil {
		return nil, false
	}
	rec.T0 = toFmtTree(ast)
	var s1 string
	var perr error
	if pm, hung := guarded(5*time.Second, func() { s1, perr = parser.PrettyPrint(ast) }); pm != "" || hung != "" {
		rec.Fault = "PrettyPrint: " + pm + hung
		return rec, true
	}
	if perr != nil {
		rec.Fault = "PrettyPrint error: " + perr.Error()
		return rec, true
	}
	rec.S1 = s1
	ast1, err1 := parser.Parse("c08", s1)
	if err1 != nil || ast1 == nil {
		if err1 != nil {
			rec.ReErr = err1.Error()
		}
		return rec, true
	}
	rec.Reparse = true
	rec.T1 = toFmtTree(ast1)
	s2, _ := parser.PrettyPrint(ast1)
	rec.Idem = s2 == s1
	return rec, true
}

var c08Corpus = []string{
	"a := 1 - (2 - 3)\nb := (1 + 2) * 3\nc := 1 + 2 * 3",
	"x := not (a and b)\ny := not a and b\nz := -(1 + 2)\nw := -a + b",
	"a := (b < c) == d\ne := b < (c == d)",
	"q := a // (b % c)\nr := (a // b) % c\ns := a - b - c\nt := a - (b + c)",
	"a := \"quote \\\" and backslash \\\\ and newline \\n and tab \\t\"",
	"a := 'single \" quoted'\nb := \"x{{a}}y\"",
	"a := [1, 2, 3, 4]\nb := [1, 2, 3, 4, 5]\nc := {\"a\" : 1, \"b\" : 2}\nd := {\"a\" : 1, \"b\" : 2, \"c\" : [1, {\"x\" : []}]}",
	"/* pre */ a := 1 # post\n# alone\nb := 2 /* mid */ + 3",
	"if a == 1 { b := 1 } elif a > 2 { b := 2 } else { b := 3 }",
	"for i in range(1, 5) { if i % 2 == 0 { continue } ; log(i) }\nfor a < 10 { a := a + 1; break }\nfor [k, v] in m { log(k) }",
	"func f(a, b=2) {\n  /* doc */\n  return a + b\n}\nres := f(1)(2)[3].x",
	"try { raise(\"E\", \"d\", [1]) } except \"E\", \"F\" as e { log(e) } except { x := 1 } otherwise { y := 2 } finally { z := 3 }",
	"sink s1 kindmatch [\"a.*\"], scopematch [], statematch {\"k\" : NULL}, priority 2, suppresses [\"s2\"] { log(event) }",
	"mutex m1 { a := 1 ; b := \"x{{a}}\" }\nimport \"foo/bar\" as fb\nlet q := fb.x(1)[0].y",
	"a := not b and c or d in [1,2] like \"x\" hasprefix \"y\" notin l hassuffix s",
	"x := -a + +b // 2 % 3 >= 1 != true\ny := a * (b / c)\nz := (a * b) / c",
	"m := {\"k\" : (x == 1), \"l\" : x + 1}",
	"a := r\"raw {{x}} \\n string\"\nb := r'raw single'",
	"a := \"ends with backslash \\\\\"",
	"a := \"multi\nline\"\nb := r\"raw\nmulti\"",
}

// C08 is the driver of property C08.
func C08(r *ev.Run) {
	tier := r.Tier
	rng := rand.New(rand.NewSource(r.Seed))
	verifhook.Set(func(string, ...interface{}) {})
	r.Assume("tree equality ignores positions, comments and blank lines; it includes node kinds, values, nesting and the raw-versus-interpolating kind of strings")

	// 1. TLC: the reference printer rule (parenthesise a child iff it binds weaker / equally on the right):
	//    parse(print(t)) = t for every operator under every other on either side
	res := runMC(r, tlc.Options{Module: "MCSyntax", Config: "MCSyntax.cfg", Workers: 1, Timeout: 10 * time.Minute})
	if res == nil {
		return
	}
	if !res.OK || strings.Contains(res.Output, "is false") {
		r.Inconclusive("reference printer round trip fails: " + res.Tail(10))
		return
	}

	var trace []interface{}
	var recs []*fmtRec
	add := func(src string) {
		rec, ok := formatCase(src)
		if !ok {
			return
		}
		recs = append(recs, rec)
		trace = append(trace, rec)
		r.Case(src, len(src) > 8)
	}
	// every operator under every other on either side (forced by parentheses), prefix operators above and below
	ops := append([]string{}, c03BinOps...)
	for _, o1 := range ops {
		for _, o2 := range ops {
			add(fmt.Sprintf("x := (a %s b) %s c", o2, o1))
			add(fmt.Sprintf("x := a %s (b %s c)", o1, o2))
			add(fmt.Sprintf("x := a %s b %s c", o1, o2))
		}
		for _, p := range []string{"-", "+", "not"} {
			add(fmt.Sprintf("x := %s (a %s b)", p, o1))
			add(fmt.Sprintf("x := (%s a) %s b", p, o1))
			add(fmt.Sprintf("x := a %s (%s b)", o1, p))
			add(fmt.Sprintf("x := a %s %s b", o1, p))
			add(fmt.Sprintf("x := %s a %s b", p, o1))
			add(fmt.Sprintf("x := (a %s (%s b)) %s c", o1, p, o1))
		}
	}
	for _, p := range []string{"-", "+", "not"} {
		for _, q := range []string{"-", "+", "not"} {
			add(fmt.Sprintf("x := %s %s a", p, q))
			add(fmt.Sprintf("x := %s (%s a)", p, q))
		}
	}
	for _, src := range c08Corpus {
		add(src)
	}
	for _, src := range c07Corpus {
		add(src)
	}
	for _, src := range c13Corpus {
		add(src)
	}
	// random expressions of the C03 generators (with their layouts) and strings over a hostile alphabet
	nRnd := pick(tier, 3000, 40000)
	var gen func(depth int) []exTok
	gen = func(depth int) []exTok {
		if depth == 0 || rng.Intn(4) == 0 {
			return rndOperand(rng, []string{"num", "str", "bool", "null", "list"}[rng.Intn(5)])
		}
		switch rng.Intn(8) {
		case 0:
			return append([]exTok{opTok([]string{"-", "+", "not"}[rng.Intn(3)])}, gen(depth-1)...)
		case 1, 2:
			return append(append([]exTok{tokLP}, gen(depth-1)...), tokRP)
		default:
			return append(append(gen(depth-1), opTok(c03BinOps[rng.Intn(len(c03BinOps))])), gen(depth-1)...)
		}
	}
	for k := 0; k < nRnd; k++ {
		add("x := " + renderToks(rng, gen(2+rng.Intn(3))))
	}
	alphabet := []string{"a", " ", "\\\"", "\\\\", "\\n", "\n", "{{", "}}", "{", "}", "'", "\\t", "ä", "#", "/*", "1+2"}
	for k := 0; k < pick(tier, 1500, 15000); k++ {
		var b strings.Builder
		n := rng.Intn(7)
		for i := 0; i < n; i++ {
			b.WriteString(alphabet[rng.Intn(len(alphabet))])
		}
		body := b.String()
		switch k % 3 {
		case 0:
			add("s := \"" + body + "\"")
		case 1:
			add("s := r\"" + strings.NewReplacer("\\\"", "q", "\"", "q").Replace(body) + "\"")
		default:
			add("s := '" + strings.Replace(strings.Replace(body, "\\\"", "\"", -1), "'", "", -1) + "'")
		}
	}
	// generated programs: every statement kind nested in each other with hostile layout (comments, blank lines and
	// line breaks between any two tokens, semicolons, several statements on a line) and unusual constructs
	for k := 0; k < pick(tier, 4000, 60000); k++ {
		ps := genFmtProgram(rng)
		if rec, ok := formatCase(renderFmt(ps, nil)); ok {
			rec.pieces = ps
			recs = append(recs, rec)
			trace = append(trace, rec)
			r.Case(rec.Src, len(rec.Src) > 8)
		}
	}
	// the in-place format tool on a directory tree
	dir, err := os.MkdirTemp("", "verif-c08-")
	if err == nil {
		defer os.RemoveAll(dir)
		os.MkdirAll(filepath.Join(dir, "sub"), 0o755)
		var files []string
		for k, src := range append(append([]string{}, c08Corpus...), "this does not parse := )") {
			p := filepath.Join(dir, []string{"", "sub"}[k%2], fmt.Sprintf("f%d.ecal", k))
			os.WriteFile(p, []byte(src), 0o644)
			files = append(files, p)
		}
		before := map[string]string{}
		for _, p := range files {
			b, _ := os.ReadFile(p)
			before[p] = string(b)
		}
		if pm, hung := guarded(20*time.Second, func() { tool.FormatFiles(dir, ".ecal") }); pm != "" || hung != "" {
			rec := &fmtRec{Src: "tool.FormatFiles", Fault: "FormatFiles: " + pm + hung, T0: &fmtTree{N: "none", C: []*fmtTree{}}, T1: &fmtTree{N: "none", C: []*fmtTree{}}}
			recs = append(recs, rec)
			trace = append(trace, rec)
		}
		for _, p := range files {
			b, _ := os.ReadFile(p)
			none := &fmtTree{N: "none", C: []*fmtTree{}}
			rec := &fmtRec{Src: "file: " + before[p], S1: string(b), T0: none, T1: none, Idem: true}
			a0, e0 := parser.Parse("f", before[p])
			a1, e1 := parser.Parse("f", string(b))
			if e0 != nil {
				// a file that does not parse must be left alone
				rec.Reparse = string(b) == before[p]
				if !rec.Reparse {
					rec.ReErr = "unparseable file was rewritten"
				}
			} else {
				rec.T0 = toFmtTree(a0)
				if e1 == nil {
					rec.Reparse = true
					rec.T1 = toFmtTree(a1)
				} else {
					rec.ReErr = e1.Error()
				}
			}
			recs = append(recs, rec)
			trace = append(trace, rec)
			r.Case("file:"+before[p], true)
		}
	}
	if len(recs) > 0 {
		r.Sample(map[string]interface{}{"src": recs[0].Src, "formatted": recs[0].S1, "idempotent": recs[0].Idem})
		r.Sample(map[string]interface{}{"src": recs[len(recs)/3].Src, "formatted": recs[len(recs)/3].S1, "idempotent": recs[len(recs)/3].Idem})
	}
	bad, ok := validateTrace(r, "Format_Trace", "Format_Trace.cfg", trace, 60*time.Minute)
	if !ok {
		return
	}
	badRecs := map[int]bool{}
	for _, code := range bad {
		idx, clause := code/10, code%10
		badRecs[idx] = true
		rec := recs[idx-1]
		sig := fmtSignature(rec, clause)
		needsNote := ""
		if rec.pieces != nil {
			needs, small := minimizeFmt(rec.pieces, clause)
			if len(needs) > 0 {
				// the signature names the clause and the first needed feature in a fixed order of suspicion (the full
				// set is in the message): root causes, not combinations
				primary := needs[0]
				for _, f := range fmtFeatures {
					found := false
					for _, n := range needs {
						found = found || n == f
					}
					if found {
						primary = f
						break
					}
				}
				sig = map[int]string{1: "C08 formatted text does not parse", 2: "C08 formatted text parses differently", 3: "C08 formatting is not idempotent", 4: "C08 fault"}[clause] + " with: " + primary
				needsNote = " [needs: " + strings.Join(needs, " + ") + "]"
			}
			if small != nil {
				rec = small
			}
		}
		b, _ := json.Marshal(map[string]string{"src": rec.Src, "formatted": rec.S1, "reparse_error": rec.ReErr, "fault": rec.Fault})
		r.Violation(sig, fmt.Sprintf("clause %d of Format_Trace%s: %s", clause, needsNote, headStr(string(b), 600)), rec)
	}
	r.AddTraces(int64(len(recs) - len(badRecs)))
	r.Set("sources_formatted", len(recs))
}

// judgeFmt repeats the clauses of Format_Trace locally (only used to reduce a failing generated program).
func judgeFmt(rec *fmtRec) int {
	switch {
	case rec.Fault != "":
		return 4
	case !rec.Reparse:
		return 1
	case !sameFmtTree(rec.T0, rec.T1):
		return 2
	case !rec.Idem:
		return 3
	}
	return 0
}

func sameFmtTree(a, b *fmtTree) bool {
	if a.N != b.N || a.V != b.V || a.Esc != b.Esc || len(a.C) != len(b.C) {
		return false
	}
	for i := range a.C {
		if !sameFmtTree(a.C[i], b.C[i]) {
			return false
		}
	}
	return true
}

// minimizeFmt switches the features of a failing generated program off one by one as long as the same clause
// still fails: what is left is what the failure needs.
func minimizeFmt(ps []fmtPiece, clause int) ([]string, *fmtRec) {
	off := map[string]bool{}
	var small *fmtRec
	for _, f := range fmtFeatsOf(ps, nil) {
		off[f] = true
		rec, ok := formatCase(renderFmt(ps, off))
		if ok && judgeFmt(rec) == clause {
			small = rec
			continue
		}
		delete(off, f)
	}
	return fmtFeatsOf(ps, off), small
}

// fmtSignature classifies a formatter failure by what differs.
func fmtSignature(rec *fmtRec, clause int) string {
	switch clause {
	case 4:
		return "C08 fault " + firstWords(rec.Fault, 6)
	case 1:
		return "C08 formatted text does not parse: " + errKind(rec.ReErr)
	case 3:
		return "C08 formatting is not idempotent"
	}
	if d := firstTreeDiff(rec.T0, rec.T1); d != "" {
		return "C08 formatted text parses differently: " + d
	}
	return "C08 formatted text parses differently"
}

func firstTreeDiff(a, b *fmtTree) string {
	if a.N != b.N || len(a.C) != len(b.C) {
		if a.N == "times" && len(a.C) == 2 && a.C[1].N == "div" {
			return "a * (b / c) printed as a * b / c"
		}
		if a.N == "statements" || a.N == "map" || a.N == "list" {
			return "a bracketed list after an expression is split off or merged (number of items of " + a.N + " changed)"
		}
		return "operator nesting changed"
	}
	if a.N == "string" && a.Esc != b.Esc {
		return "raw string printed as quoted string"
	}
	if (a.N == "string" || a.N == "number" || a.N == "identifier") && a.V != b.V {
		return a.N + " value changed"
	}
	for i := range a.C {
		if d := firstTreeDiff(a.C[i], b.C[i]); d != "" {
			return d
		}
	}
	return ""
}

var _ = tlc.Options{}

// MinimizeSource greedily removes whitespace separated words of a source text as long as the same clause of the
// formatter property fails (diagnosis tool, see cmd/ppmin).
func MinimizeSource(src string) (string, int) {
	rec, ok := formatCase(src)
	if !ok {
		return src, -1
	}
	clause := judgeFmt(rec)
	if clause == 0 {
		return src, 0
	}
	re := regexp.MustCompile(`[^\s]+|\s+`)
	words := re.FindAllString(src, -1)
	for changed := true; changed; {
		changed = false
		for i := 0; i < len(words); i++ {
			cand := append(append([]string{}, words[:i]...), words[i+1:]...)
			if r2, ok := formatCase(strings.Join(cand, "")); ok && judgeFmt(r2) == clause {
				words = cand
				changed = true
				i--
			}
		}
	}
	return strings.Join(words, ""), clause
}
