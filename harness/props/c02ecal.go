//go:build verif

package props

import (
	"fmt"
	"math/rand"
	"sort"
	"strings"
	"time"

	"verif/harness/ev"
)

// renderCascadeECAL renders the rules of a cascade program as ECAL sinks. Events are named by their path (the a-th
// event added by sink r while it handles event n is n>r.a), a failing sink raises "fail:<sink>" with the name of
// its own event as detail - the conventions of EcalWait_Trace.tla.
func renderCascadeECAL(prog *CProg) string {
	var b strings.Builder
	for _, rl := range prog.Rules {
		fmt.Fprintf(&b, "sink %s\n    kindmatch [ %q ],\n    priority %d,\n    {\n", rl.Name, rl.Kind, rl.Prio)
		for a, ad := range rl.Adds {
			fmt.Fprintf(&b, "        addEvent(\"{{event.name}}>%s.%d\", %q, {})\n", rl.Name, a+1, ad.Kind)
		}
		if rl.Fail {
			fmt.Fprintf(&b, "        raise(\"fail:%s\", event.name)\n", rl.Name)
		}
		b.WriteString("    }\n")
	}
	return b.String()
}

// c02EcalPhase: the ECAL form of the waiting call. Cascade programs become sinks, the top level calls
// addEventAndWait and the list it returns is judged by TLC against the reference evaluation of the event tree.
func c02EcalPhase(r *ev.Run, rng *rand.Rand, n int) {
	var progs []*CProg
	for i := 0; i < n; i++ {
		workers := 1 + rng.Intn(8)
		prog := randomCascade(rng, fmt.Sprintf("ecal-%d", i), 1+rng.Intn(3), 2, 3, 3, workers)
		if i%5 == 0 {
			// several events of one cascade fail (in several sinks each)
			for k := range prog.Rules {
				prog.Rules[k].Fail = rng.Intn(3) > 0
			}
		}
		progs = append(progs, prog)
	}
	runEcalWaitProgs(r, "C02", progs)
}

// c11StormPhase: one cascade whose sinks fan out (1 -> 12 -> 144 events) on 16 workers, every leaf invocation fails
// with its own event name; the monitors of the leaves are created by all workers at the same time. The report of
// the waiting call must hold every one of the 144 failures, each for its own event.
func c11StormPhase(r *ev.Run, rounds int) {
	fan := func(kind string) []CAdd {
		var a []CAdd
		for i := 0; i < 12; i++ {
			a = append(a, CAdd{Kind: kind})
		}
		return a
	}
	var progs []*CProg
	for i := 0; i < rounds; i++ {
		progs = append(progs, &CProg{Name: fmt.Sprintf("storm-%d", i), Workers: 16, Roots: []string{"t.storm"}, Rules: []CRule{
			{Name: "storm", Kind: "t.storm", Adds: fan("t.work")},
			{Name: "work", Kind: "t.work", Adds: fan("t.leaf")},
			{Name: "leaf", Kind: "t.leaf", Fail: true},
			{Name: "leafok", Kind: "t.leaf"},
		}})
	}
	runEcalWaitProgs(r, "C11", progs)
}

func runEcalWaitProgs(r *ev.Run, prop string, progs []*CProg) {
	var recs []interface{}
	var srcs []string
	for i, prog := range progs {
		workers := prog.Workers
		src := renderCascadeECAL(prog)
		env := newEcalEnv(workers)
		env.erp.Processor.SetFailOnFirstErrorInTriggerSequence(false)
		var err error
		if pm, hung := guarded(10*time.Second, func() { _, err = env.run(src) }); pm != "" || hung != "" || err != nil {
			r.Inconclusive(fmt.Sprintf("the sinks of a cascade program cannot be declared: %v %s %s\n%s", err, pm, hung, src))
			return
		}
		env.erp.Processor.Start()
		var res interface{}
		call := fmt.Sprintf("addEventAndWait(\"root\", %q, {})", prog.Roots[0])
		pm, hung := guarded(20*time.Second, func() { res, err = env.run("res := " + call + "\nres\n") })
		stop := make(chan struct{})
		go func() { env.erp.Processor.ThreadPool().SetWorkerCount(0, false); close(stop) }()
		select {
		case <-stop:
		case <-time.After(2 * time.Second):
		}
		key := fmt.Sprintf("ecal-wait/%d rules/%d workers", len(prog.Rules), workers)
		r.Case(key+fmt.Sprint(i), len(prog.Rules) > 1)
		if hung != "" {
			r.Violation(prop+" ECAL addEventAndWait does not return", fmt.Sprintf("%s did not return (%s) although every sink terminates and %d workers exist", call, hung, workers),
				map[string]interface{}{"source": src, "call": call, "workers": workers})
			return
		}
		if pm != "" || err != nil {
			r.Violation(prop+" ECAL addEventAndWait fails", fmt.Sprintf("%s: error %v panic %q", call, err, pm),
				map[string]interface{}{"source": src, "call": call, "workers": workers})
			continue
		}
		var rules []interface{}
		for _, rl := range prog.Rules {
			adds := []string{}
			for _, ad := range rl.Adds {
				adds = append(adds, ad.Kind)
			}
			rules = append(rules, map[string]interface{}{"name": rl.Name, "kind": rl.Kind, "fail": rl.Fail, "adds": adds})
		}
		report := []interface{}{}
		items, _ := res.([]interface{})
		for _, it := range items {
			m, _ := it.(map[interface{}]interface{})
			evm, _ := m["event"].(map[interface{}]interface{})
			errs, _ := m["errors"].(map[interface{}]interface{})
			var sinks []string
			for k := range errs {
				sinks = append(sinks, fmt.Sprint(k))
			}
			sort.Strings(sinks)
			for _, s := range sinks {
				e, _ := errs[s].(map[interface{}]interface{})
				report = append(report, map[string]interface{}{"ev": fmt.Sprint(evm["name"]), "rule": s,
					"type": fmt.Sprint(e["type"]), "detail": fmt.Sprint(e["detail"])})
			}
		}
		recs = append(recs, map[string]interface{}{"rules": rules, "root": prog.Roots[0], "items": len(items), "report": report})
		srcs = append(srcs, src+"res := "+call+"\n")
	}
	bad, ok := validateTrace(r, "EcalWait_Trace", "EcalWait_Trace.cfg", recs, 10*time.Minute)
	if !ok {
		return
	}
	r.AddTraces(int64(len(recs)))
	r.Set("ecal_wait_calls", len(recs))
	clause := map[int]string{1: "an error of the cascade is missing in the report", 2: "the report holds an entry for an (event, sink) which did not fail",
		3: "an entry carries the outcome of another invocation", 4: "the report is not one item per event with one entry per failing sink"}
	seen := map[int]bool{}
	for _, b := range bad {
		i, c := b/10, b%10
		if seen[c] {
			continue
		}
		seen[c] = true
		r.Violation(prop+" ECAL addEventAndWait report: "+clause[c], fmt.Sprintf("program %d: %s", i, clause[c]),
			map[string]interface{}{"source": srcs[i-1], "record": recs[i-1], "clause": c})
	}
	if len(recs) > 0 {
		r.Sample(map[string]interface{}{"mode": "ecal-wait", "source": srcs[len(srcs)-1], "record": recs[len(recs)-1]})
	}
}
