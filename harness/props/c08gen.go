//go:build verif

package props

import (
	"math/rand"
	"sort"
	"strings"
)

// Statement-level program generator for C08 with hostile layout. A program is a list of pieces; a piece which
// belongs to a feature (an unusual but legal construct or layout) has an ordinary alternative, so the same
// program can be rendered with any subset of its features - a failing program is reduced to the features it needs.

type fmtPiece struct {
	text, feat, alt string
}

type fmtGen struct {
	rng    *rand.Rand
	out    []fmtPiece
	inStmt int // > 0: inside a statement (gaps may not be statement separators)
}

var fmtFeatures = []string{"line-comment-inside-statement", "comment-in-container", "newline-inside-statement", "blank-line-inside-statement",
	"block-comment-inside-statement", "two-block-comments", "block-comment-on-own-line", "blank-line-before-statement", "comment-before-first-statement",
	"line-comment-after-statement", "statement-starting-with-sign", "statement-starting-with-bracket", "bracketed-assignment-as-value",
	"bracketed-expression-in-sink-attribute", "literal-guard", "semicolon-separator", "statements-on-one-line", "return-without-value", "empty-block",
	"percent-in-comment"}

func (g *fmtGen) tok(s string) { g.gap(); g.out = append(g.out, fmtPiece{text: s}) }

func (g *fmtGen) feat(text, feat, alt string) {
	g.gap()
	g.out = append(g.out, fmtPiece{text: text, feat: feat, alt: alt})
}

// gap emits the separator in front of the next token
func (g *fmtGen) gap() {
	if len(g.out) == 0 {
		return
	}
	if g.inStmt == 0 {
		return // statement separators are emitted by sep()
	}
	switch r := g.rng.Intn(100); {
	case r < 80:
		g.out = append(g.out, fmtPiece{text: " "})
	case r < 85:
		g.out = append(g.out, fmtPiece{text: "\n    ", feat: "newline-inside-statement", alt: " "})
	case r < 88:
		g.out = append(g.out, fmtPiece{text: "\n\n", feat: "blank-line-inside-statement", alt: " "})
	case r < 92:
		g.out = append(g.out, fmtPiece{text: " # c1\n", feat: "line-comment-inside-statement", alt: " "})
	case r < 96:
		g.out = append(g.out, fmtPiece{text: " /* c2 */ ", feat: "block-comment-inside-statement", alt: " "})
	default:
		g.out = append(g.out, fmtPiece{text: "\n/* c3 */\n", feat: "block-comment-on-own-line", alt: " "})
	}
}

// sep emits the separator between two statements
func (g *fmtGen) sep(first bool) {
	if first {
		if g.rng.Intn(8) == 0 && len(g.out) == 0 {
			g.out = append(g.out, fmtPiece{text: "/* head */\n\n", feat: "comment-before-first-statement", alt: ""})
		}
		if len(g.out) > 0 {
			g.out = append(g.out, fmtPiece{text: "\n"})
		}
		return
	}
	switch r := g.rng.Intn(100); {
	case r < 55:
		g.out = append(g.out, fmtPiece{text: "\n"})
	case r < 63:
		g.out = append(g.out, fmtPiece{text: "\n\n", feat: "blank-line-before-statement", alt: "\n"})
	case r < 73:
		g.out = append(g.out, fmtPiece{text: "; ", feat: "semicolon-separator", alt: "\n"})
	case r < 78:
		g.out = append(g.out, fmtPiece{text: " ", feat: "statements-on-one-line", alt: "\n"})
	case r < 84:
		g.out = append(g.out, fmtPiece{text: " # after\n", feat: "line-comment-after-statement", alt: "\n"})
	case r < 90:
		g.out = append(g.out, fmtPiece{text: "\n/* before */\n", feat: "block-comment-on-own-line", alt: "\n"})
	case r < 94:
		g.out = append(g.out, fmtPiece{text: "\n/* one */\n/* two */\n", feat: "two-block-comments", alt: "\n"})
	case r < 97:
		g.out = append(g.out, fmtPiece{text: "\n/* 100% of %d and %s */\n", feat: "percent-in-comment", alt: "\n"})
	default:
		g.out = append(g.out, fmtPiece{text: "\n\n/* spaced */\n\n", feat: "blank-line-before-statement", alt: "\n"})
	}
}

var fmtVars = []string{"a", "b", "c", "d.e", "x1"}

func (g *fmtGen) ident() string { return fmtVars[g.rng.Intn(len(fmtVars))] }

func (g *fmtGen) expr(d int) {
	r := g.rng.Intn(14)
	if d <= 0 {
		r = g.rng.Intn(5)
	}
	switch r {
	case 0:
		g.tok([]string{"1", "2.5", "0", "17"}[g.rng.Intn(4)])
	case 1:
		g.tok(g.ident())
	case 2:
		g.tok([]string{"\"s\"", "'q'", "\"a{{b}}\"", "true", "false", "null"}[g.rng.Intn(6)])
	case 3:
		g.tok(g.ident())
	case 4:
		g.tok("1")
	case 5, 6:
		g.expr(d - 1)
		g.tok(c03BinOps[g.rng.Intn(len(c03BinOps))])
		g.expr(d - 1)
	case 7:
		g.tok([]string{"-", "not", "+"}[g.rng.Intn(3)])
		g.expr(d - 1)
	case 8:
		g.tok("(")
		g.expr(d - 1)
		g.tok(")")
	case 9: // list
		g.tok("[")
		for i, n := 0, g.rng.Intn(6); i < n; i++ {
			if i > 0 {
				g.tok(",")
			}
			g.expr(d - 1)
			if g.rng.Intn(10) == 0 {
				g.out = append(g.out, fmtPiece{text: " # item\n", feat: "comment-in-container", alt: ""})
			}
		}
		g.tok("]")
	case 10: // map
		g.tok("{")
		for i, n := 0, g.rng.Intn(4); i < n; i++ {
			if i > 0 {
				g.tok(",")
			}
			g.tok([]string{"\"k\"", "\"j\"", "1", "k2"}[g.rng.Intn(4)])
			g.tok(":")
			g.expr(d - 1)
			if g.rng.Intn(10) == 0 {
				g.out = append(g.out, fmtPiece{text: " /* entry */", feat: "comment-in-container", alt: ""})
			}
		}
		g.tok("}")
	case 11: // call with access chain
		g.tok([]string{"f", "g", "m.h", "len"}[g.rng.Intn(4)])
		g.tok("(")
		for i, n := 0, g.rng.Intn(3); i < n; i++ {
			if i > 0 {
				g.tok(",")
			}
			g.expr(d - 1)
		}
		g.tok(")")
		if g.rng.Intn(3) == 0 {
			g.tok("[")
			g.expr(0)
			g.tok("]")
		}
	case 12: // index access
		g.tok(g.ident())
		g.tok("[")
		g.expr(d - 1)
		g.tok("]")
	default: // bracketed assignment as a value
		g.feat("(", "bracketed-assignment-as-value", "")
		g.feat("b", "bracketed-assignment-as-value", "")
		g.feat(":=", "bracketed-assignment-as-value", "")
		g.tok("1")
		g.feat(")", "bracketed-assignment-as-value", "")
	}
}

func (g *fmtGen) guard() {
	if g.rng.Intn(4) == 0 {
		g.feat([]string{"true", "false"}[g.rng.Intn(2)], "literal-guard", "a")
		return
	}
	g.expr(1)
}

func (g *fmtGen) block(d int, inLoop, inFunc bool) {
	g.tok("{")
	save := g.inStmt
	g.inStmt = 0
	n := 1 + g.rng.Intn(3)
	if g.rng.Intn(12) == 0 {
		n = 0
		g.out = append(g.out, fmtPiece{text: "", feat: "empty-block", alt: "\nz := 0"})
	}
	for i := 0; i < n; i++ {
		g.sep(i == 0)
		g.stmt(d-1, inLoop, inFunc)
	}
	g.out = append(g.out, fmtPiece{text: "\n"})
	g.inStmt = save
	g.out = append(g.out, fmtPiece{text: "}"})
}

func (g *fmtGen) stmt(d int, inLoop, inFunc bool) {
	g.inStmt++
	defer func() { g.inStmt-- }()
	first := true
	t := func(s string) { // the first token of a statement has no gap in front of it
		if first {
			g.out = append(g.out, fmtPiece{text: s})
			first = false
			return
		}
		g.tok(s)
	}
	r := g.rng.Intn(20)
	if d <= 0 && r >= 7 && r <= 15 {
		r = g.rng.Intn(7)
	}
	switch r {
	case 0, 1, 2:
		t(g.ident())
		g.tok(":=")
		g.expr(2)
	case 3:
		t("let")
		g.tok([]string{"a", "b", "c"}[g.rng.Intn(3)])
		g.tok(":=")
		g.expr(2)
	case 4: // expression statement
		switch g.rng.Intn(4) {
		case 0:
			g.out = append(g.out, fmtPiece{text: []string{"-", "+"}[g.rng.Intn(2)], feat: "statement-starting-with-sign", alt: ""})
			g.out = append(g.out, fmtPiece{text: "b"})
			first = false
		case 1:
			g.out = append(g.out, fmtPiece{text: "(", feat: "statement-starting-with-bracket", alt: ""})
			first = false
			g.tok("c")
			g.feat(")", "statement-starting-with-bracket", "")
		case 2:
			t("[")
			g.tok("1")
			g.tok("]")
		default:
			t("f")
			g.tok("(")
			g.expr(1)
			g.tok(")")
		}
	case 5:
		t("[")
		g.tok("k")
		g.tok(",")
		g.tok("v")
		g.tok("]")
		g.tok(":=")
		g.tok("pair")
	case 6:
		if inLoop {
			t([]string{"break", "continue"}[g.rng.Intn(2)])
		} else if inFunc {
			t("return")
			g.expr(1) // a return without value cannot be followed by every statement (return <newline> -b is one expression)
		} else {
			t("log")
			g.tok("(")
			g.expr(1)
			g.tok(")")
		}
	case 7, 8:
		t("if")
		g.guard()
		g.block(d, inLoop, inFunc)
		for i, n := 0, g.rng.Intn(3); i < n; i++ {
			g.tok("elif")
			g.guard()
			g.block(d, inLoop, inFunc)
		}
		if g.rng.Intn(2) == 0 {
			g.tok("else")
			g.block(d, inLoop, inFunc)
		}
	case 9, 10:
		t("for")
		switch g.rng.Intn(3) {
		case 0:
			g.guard()
		case 1:
			g.tok("i")
			g.tok("in")
			g.expr(1)
		default:
			g.tok("[")
			g.tok("k")
			g.tok(",")
			g.tok("v")
			g.tok("]")
			g.tok("in")
			g.tok("m")
		}
		g.block(d, true, inFunc)
	case 11:
		t("func")
		g.tok([]string{"f", "g", "h"}[g.rng.Intn(3)])
		g.tok("(")
		for i, n := 0, g.rng.Intn(3); i < n; i++ {
			if i > 0 {
				g.tok(",")
			}
			g.tok([]string{"p", "q", "r"}[i])
			if g.rng.Intn(3) == 0 {
				g.tok("=")
				g.expr(0)
			}
		}
		g.tok(")")
		g.block(d, false, true)
	case 12:
		t(g.ident())
		g.tok(":=")
		g.tok("func")
		g.tok("(")
		g.tok("p")
		g.tok(")")
		g.block(d, false, true)
	case 13, 14:
		t("try")
		g.block(d, inLoop, inFunc)
		for i, n := 0, g.rng.Intn(3); i < n; i++ {
			g.tok("except")
			for j, m := 0, g.rng.Intn(3); j < m; j++ {
				if j > 0 {
					g.tok(",")
				}
				g.tok([]string{"\"E1\"", "\"E2\"", "\"x y\""}[g.rng.Intn(3)])
			}
			if g.rng.Intn(2) == 0 {
				g.tok("as")
				g.tok("e")
			}
			g.block(d, inLoop, inFunc)
		}
		if g.rng.Intn(3) == 0 {
			g.tok("otherwise")
			g.block(d, inLoop, inFunc)
		}
		if g.rng.Intn(2) == 0 {
			g.tok("finally")
			g.block(d, inLoop, inFunc)
		}
	case 15:
		t("mutex")
		g.tok("mx")
		g.block(d, inLoop, inFunc)
	case 16:
		if !inFunc && !inLoop && d >= 2 {
			t("sink")
			g.tok([]string{"s1", "s2"}[g.rng.Intn(2)])
			attrs := []func(){
				func() { g.tok("kindmatch"); g.tok("["); g.tok("\"a.*\""); g.tok("]") },
				func() { g.tok("scopematch"); g.tok("["); g.tok("]") },
				func() {
					g.tok("statematch")
					g.tok("{")
					g.tok("\"k\"")
					g.tok(":")
					g.tok("null")
					g.tok("}")
				},
				func() {
					g.tok("priority")
					if g.rng.Intn(3) == 0 {
						g.feat("(", "bracketed-expression-in-sink-attribute", "")
						g.tok("1")
						g.feat("+", "bracketed-expression-in-sink-attribute", "")
						g.feat("2", "bracketed-expression-in-sink-attribute", "")
						g.feat(")", "bracketed-expression-in-sink-attribute", "")
					} else {
						g.tok("3")
					}
				},
				func() { g.tok("suppresses"); g.tok("["); g.tok("\"s9\""); g.tok("]") },
			}
			g.rng.Shuffle(len(attrs), func(i, j int) { attrs[i], attrs[j] = attrs[j], attrs[i] })
			na := 1 + g.rng.Intn(len(attrs))
			for i, a := range attrs[:na] {
				a()
				if i < na-1 || g.rng.Intn(2) == 0 {
					g.tok(",")
				}
			}
			g.block(d, false, true)
		} else {
			t("a")
			g.tok(":=")
			g.tok("1")
		}
	case 17:
		t("import")
		g.tok("\"lib/x\"")
		g.tok("as")
		g.tok("lx")
	default:
		t(g.ident())
		g.tok(":=")
		g.expr(3)
	}
}

// genFmtProgram gives the pieces of a program of n top level statements.
func genFmtProgram(rng *rand.Rand) []fmtPiece {
	g := &fmtGen{rng: rng}
	for i, n := 0, 1+rng.Intn(4); i < n; i++ {
		g.sep(i == 0)
		g.stmt(2, false, false)
	}
	return g.out
}

// renderFmt renders the pieces with the given features switched off.
func renderFmt(ps []fmtPiece, off map[string]bool) string {
	var b strings.Builder
	for _, p := range ps {
		if p.feat != "" && off[p.feat] {
			b.WriteString(p.alt)
		} else {
			b.WriteString(p.text)
		}
	}
	return b.String()
}

func fmtFeatsOf(ps []fmtPiece, off map[string]bool) []string {
	set := map[string]bool{}
	for _, p := range ps {
		if p.feat != "" && !off[p.feat] {
			set[p.feat] = true
		}
	}
	var out []string
	for f := range set {
		out = append(out, f)
	}
	sort.Strings(out)
	return out
}
