//go:build verif

package props

import (
	"bufio"
	"encoding/json"
	"fmt"
	"math/rand"
	"os"
	"path/filepath"
	"strings"
	"time"

	"github.com/krotik/ecal/interpreter"
	"github.com/krotik/ecal/parser"
	"github.com/krotik/ecal/scope"
	"github.com/krotik/ecal/util"
	"github.com/krotik/ecal/verifhook"

	"verif/harness/ev"
	"verif/harness/tlc"
)

type ipCase struct {
	Root string   `json:"root"`
	Lead bool     `json:"lead"`
	Path []string `json:"path"`
	Exp  struct {
		Cls string   `json:"cls"`
		Loc []string `json:"loc"`
	} `json:"exp"`
}

// the directory universe of ImportPath.tla
var c17Inside = [][]string{{"root", "a"}, {"root", "b", "a"}, {"root", "b", "c", "a"}, {"root", "d.x"}, {"root", "s p", "a"}, {"root", "..x"}, {"root", "root", "a"}, {"root", "c"}, {"root", "b.ecal"}}
var c17Outside = [][]string{{"root.ecal"}, {"a"}, {"b"}, {"c"}, {"rootx"}, {"root2", "a"}, {"d.x"}, {"..x"}}

func insidePrefix(root string) string {
	if strings.HasPrefix(root, "nested") {
		return "loc := \"root/b/"
	}
	return "loc := \"root/"
}

func sentinel(loc []string) string {
	return "loc := \"" + strings.Join(loc, "/") + "\"\n"
}

// C17 is the driver of property C17.
func C17(r *ev.Run) {
	tier := r.Tier
	verifhook.Set(func(string, ...interface{}) {})
	r.Assume("confinement is lexical (as the statement says): symbolic links are not part of the universe")

	// 1. TLC writes the case universe with the expected location / error
	out := filepath.Join(os.TempDir(), fmt.Sprintf("verif-c17-cases-%d.ndjson", os.Getpid()))
	defer os.Remove(out)
	cfg := "ImportPath_q.cfg"
	if tier == "thorough" {
		cfg = "ImportPath_t.cfg"
	}
	res := runMC(r, tlc.Options{Module: "ImportPath", Config: cfg, Workers: 1, Timeout: 30 * time.Minute, Args: []string{"-maxSetSize", "30000000"}, Env: map[string]string{"VERIF_OUT": out}})
	if res == nil {
		return
	}
	f, err := os.Open(out)
	if err != nil {
		r.Inconclusive("TLC did not write the case universe: " + res.Tail(10))
		return
	}
	defer f.Close()

	// 2. the directory universe on disk, below seven directories of its own
	top, err := os.MkdirTemp("", "verif-c17-")
	if err != nil {
		r.Inconclusive(err.Error())
		return
	}
	defer os.RemoveAll(top)
	base := filepath.Join(top, "u1", "u2", "u3", "u4", "u5", "u6", "u7", "base")
	write := func(loc []string) {
		p := filepath.Join(append([]string{base}, loc...)...)
		os.MkdirAll(filepath.Dir(p), 0o755)
		os.WriteFile(p, []byte(sentinel(loc)), 0o644)
	}
	for _, l := range c17Inside {
		write(l)
	}
	for _, l := range c17Outside {
		write(l)
	}
	cwd, _ := os.Getwd()
	if err := os.Chdir(base); err != nil {
		r.Inconclusive(err.Error())
		return
	}
	defer os.Chdir(cwd)
	roots := map[string]string{"abs": filepath.Join(base, "root"), "rel": "root", "dotrel": "./root", "trailing": "root/", "updown": "root2/../root",
		"dot": ".", "nested": "root/b", "nestedabs": filepath.Join(base, "root", "b") + "/"}
	rootNames := []string{"abs", "rel", "dotrel", "trailing", "updown", "dot", "nested", "nestedabs"}
	inDot := false
	// the root "." is resolved with base/root as working directory
	enter := func(root string) {
		if (root == "dot") != inDot {
			inDot = root == "dot"
			if inDot {
				os.Chdir(filepath.Join(base, "root"))
			} else {
				os.Chdir(base)
			}
		}
	}

	sc := bufio.NewScanner(f)
	sc.Buffer(make([]byte, 1<<20), 1<<20)
	n, okCases, viaImport, returned := 0, 0, 0, 0
	for sc.Scan() {
		var c ipCase
		if json.Unmarshal(sc.Bytes(), &c) != nil {
			continue
		}
		n++
		path := strings.Join(c.Path, "/")
		if c.Lead {
			path = "/" + path
		}
		enter(c.Root)
		il := &util.FileImportLocator{Root: roots[c.Root]}
		var content string
		var rerr error
		pm, hung := guarded(5*time.Second, func() { content, rerr = il.Resolve(path) })
		r.Case(c.Root+":"+path, len(c.Path) > 1)
		replay := map[string]interface{}{"root": roots[c.Root], "path": path, "expected": c.Exp}
		switch {
		case pm != "" || hung != "":
			r.Violation("C17 fault "+firstWords(pm+hung, 6), fmt.Sprintf("Resolve(%q) with root %q: %s%s", path, roots[c.Root], pm, hung), replay)
		case rerr == nil && !strings.HasPrefix(content, insidePrefix(c.Root)):
			r.Violation("C17 file outside the root was read", fmt.Sprintf("Resolve(%q) with root %q returned %q", path, roots[c.Root], content), replay)
		case rerr == nil && (c.Exp.Cls == "error" || content != sentinel(c.Exp.Loc)):
			r.Drift(fmt.Sprintf("Resolve(%q) with root %q returned %q; the reference resolves the path to %v (%s)", path, roots[c.Root], content, c.Exp.Loc, c.Exp.Cls))
		case rerr != nil && c.Exp.Cls == "inside":
			r.Drift(fmt.Sprintf("Resolve(%q) with root %q refused a path which never leaves the root: %v", path, roots[c.Root], rerr))
		}
		if c.Exp.Cls != "error" {
			okCases++
			if rerr == nil {
				returned++
			}
		}
		// a sample of the cases through the interpreter's import statement
		if n%40 == 0 && !strings.ContainsAny(path, "\"") {
			viaImport++
			erp := interpreter.NewECALRuntimeProvider("c17", il, util.NewMemoryLogger(10))
			erp.Cron.Stop()
			src := "import " + ecalQuote(path) + " as m\nm.loc"
			var val interface{}
			var ierr error
			guarded(5*time.Second, func() {
				ast, perr := parser.ParseWithRuntime("c17", src, erp)
				if perr != nil {
					ierr = perr
					return
				}
				if ierr = ast.Runtime.Validate(); ierr == nil {
					val, ierr = ast.Runtime.Eval(scope.NewScope(scope.GlobalScope), make(map[string]interface{}), erp.NewThreadID())
				}
			})
			// the statement must agree with the locator: a module only where Resolve returned content
			if (ierr == nil && val != nil) != (rerr == nil) || (rerr == nil && fmt.Sprint(val)+"\"\n" != strings.TrimPrefix(content, "loc := \"")) {
				r.Violation("C17 import statement and locator disagree", fmt.Sprintf("import %q: value=%v error=%v; Resolve: content=%q error=%v", path, val, ierr, content, rerr), replay)
			}
		}
		if n == 1 || n == 5000 {
			r.Sample(map[string]interface{}{"root": roots[c.Root], "path": path, "expected": c.Exp, "error": fmt.Sprint(rerr)})
		}
	}
	enter("abs")
	r.Checkpoint()

	// 3. random longer paths, judged by the reference through ImportPath_Trace (direction B)
	rng := rand.New(rand.NewSource(r.Seed))
	segs := []string{"a", "b", "c", ".", "..", "", "..x", "d.x", "s p", "root", "root2", "..", "..", "a", "b", "root"}
	type ipRecord struct {
		Root string   `json:"root"`
		Path []string `json:"path"`
		Got  string   `json:"got"`
		Loc  []string `json:"loc"`
		str  string
	}
	var recs []*ipRecord
	var trace []interface{}
	for k := 0; k < pick(tier, 20000, 200000); k++ {
		rec := &ipRecord{Root: rootNames[rng.Intn(len(rootNames))], Path: []string{}, Loc: []string{}, Got: "error"}
		for i, m := 0, 5+rng.Intn(10); i < m; i++ {
			rec.Path = append(rec.Path, segs[rng.Intn(len(segs))])
		}
		rec.str = strings.Join(rec.Path, "/")
		if rng.Intn(3) == 0 {
			rec.str = "/" + rec.str
		}
		enter(rec.Root)
		il := &util.FileImportLocator{Root: roots[rec.Root]}
		var content string
		var rerr error
		pm, hung := guarded(5*time.Second, func() { content, rerr = il.Resolve(rec.str) })
		if pm != "" || hung != "" {
			r.Violation("C17 fault "+firstWords(pm+hung, 6), fmt.Sprintf("Resolve(%q) with root %q: %s%s", rec.str, roots[rec.Root], pm, hung), rec)
			continue
		}
		if rerr == nil {
			rec.Got = "content"
			if strings.HasPrefix(content, "loc := \"") && strings.HasSuffix(content, "\"\n") {
				rec.Loc = strings.Split(content[len("loc := \""):len(content)-2], "/")
			} else {
				rec.Loc = []string{"?"}
			}
		}
		r.Case(rec.Root+":"+rec.str, true)
		recs = append(recs, rec)
		trace = append(trace, rec)
	}
	enter("abs")
	bad, ok := validateTrace(r, "ImportPath_Trace", "ImportPath_Trace.cfg", trace, 30*time.Minute)
	if !ok {
		return
	}
	badRecs := map[int]bool{}
	for _, code := range bad {
		idx, clause := code/10, code%10
		badRecs[idx] = true
		rec := recs[idx-1]
		msg := fmt.Sprintf("Resolve(%q) with root %q: got %s %v", rec.str, roots[rec.Root], rec.Got, rec.Loc)
		if clause == 3 {
			r.Violation("C17 file outside the root was read", msg, rec)
		} else {
			r.Drift(map[int]string{1: "refused a path which never leaves the root: ", 2: "returned another file than the path denotes: "}[clause] + msg)
		}
	}
	r.Set("random_long_paths", len(recs))
	r.AddTraces(int64(n - r.Violations() + len(recs)))
	r.Set("cases", n)
	r.Set("cases_denoting_a_file_inside", okCases)
	r.Set("cases_content_returned", returned)
	r.Set("cases_via_import_statement", viaImport)
	r.Set("exhaustive", true)
	if n < 1000 || returned < 100 {
		r.Inconclusive("case universe too small or no file returned at all: the directory universe is not in place")
	}
}
