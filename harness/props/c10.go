//go:build verif

package props

import (
	"encoding/json"
	"fmt"
	"math/rand"
	"strconv"
	"strings"
	"time"

	"github.com/krotik/ecal/engine"
	"github.com/krotik/ecal/verifhook"

	"verif/harness/ev"
	"verif/harness/sched"
	"verif/harness/tlc"
)

type monOp struct {
	Op string `json:"op"`
	M  int    `json:"m"`
	P  int    `json:"p"`
	HP int    `json:"hp"` // expected (direction A) or observed (direction B)
}

// replayMonitorOps executes a monitor history on real monitors and returns the observed
// HighestPriority() after each operation (panics of the engine's assertions are returned as error).
func replayMonitorOps(ops []monOp) (obs []int, err error) {
	defer func() {
		if r := recover(); r != nil {
			err = fmt.Errorf("panic: %v", r)
		}
	}()
	verifhook.Set(func(string, ...interface{}) {})
	proc := engine.NewProcessor(1)
	root := proc.NewRootMonitor(nil, nil)
	mons := map[int]engine.Monitor{0: root}
	e := engine.NewEvent("e", []string{"k"}, nil)
	for _, op := range ops {
		switch op.Op {
		case "create":
			// children are created by running actions: use any active monitor as parent (the root if active)
			mons[op.M] = root.NewChildMonitor(op.P)
		case "activate":
			mons[op.M].Activate(e)
		case "skip":
			mons[op.M].Skip(e)
		case "finish":
			mons[op.M].Finish()
		}
		obs = append(obs, root.HighestPriority())
	}
	return obs, nil
}

// C10 is the driver of property C10.
func C10(r *ev.Run) {
	tier := r.Tier
	rng := rand.New(rand.NewSource(r.Seed))
	r.Assume("priorities are taken from the documented domain >= 0")
	r.Assume("HighestPriority samples are judged only in gate-serialised runs (one goroutine moves at a time), where the record order is the real order")

	// 1. TLC: the monitor bookkeeping incl. the transcribed IntHeap, exhaustively; the code as found must be refuted
	n := pick(tier, 4, 5)
	mk := func(variant string, n int, prios string) string {
		fp := "FP_none"
		if variant == "found-heap" {
			fp = "FP_heap"
		}
		if variant != "fixed" {
			// defect variants: export the counterexample so that it can be replayed on the real code
			return fmt.Sprintf("SPECIFICATION Spec\nCONSTANTS\n N = %d\n Prios = %s\n Variant = %q\n FixedPrio <- "+fp+"\n RecordHist = TRUE\nINVARIANTS ExportBad HeapTopIsMin\nCHECK_DEADLOCK FALSE\n", n, prios, variant)
		}
		return fmt.Sprintf("SPECIFICATION Spec\nCONSTANTS\n N = %d\n Prios = %s\n Variant = %q\n FixedPrio <- "+fp+"\n RecordHist = FALSE\nINVARIANTS HeapTopIsMin PostedOnce PostedMeansAllDone AllDoneMeansPosted CounterIsUnfinished\nVIEW view\nCHECK_DEADLOCK FALSE\n", n, prios, variant)
	}
	prios := "{0,1,2,3,4}"
	if n == 5 {
		prios = "{0,1,2,3,4,5}"
	}
	jobs := []*MCJob{
		{Name: fmt.Sprintf("Monitor/fixed/N=%d", n), Files: map[string]string{"M.cfg": mk("fixed", n, prios)}, Opt: tlc.Options{Module: "MCMonitor", Config: "M.cfg", Timeout: 30 * time.Minute, Workers: 12}},
		{Name: "Monitor/found-skip", Files: map[string]string{"M.cfg": mk("found-skip", 3, "{0,1,2}")}, Opt: tlc.Options{Module: "MCMonitor", Config: "M.cfg", Timeout: 10 * time.Minute, Workers: 2}},
		{Name: "Monitor/found-heap", Files: map[string]string{"M.cfg": mk("found-heap", 5, "{0,1,2,3,4,5}")}, Opt: tlc.Options{Module: "MCMonitor", Config: "M.cfg", Timeout: 10 * time.Minute, Workers: 2}},
	}
	if !runMCParallel(r, jobs, 3) {
		return
	}
	if !jobs[0].Res.OK {
		r.Inconclusive("Monitor model (fixed) refuted by TLC: " + jobs[0].Res.Describe() + "\n" + jobs[0].Res.Tail(30))
		return
	}
	selfOK := strings.Contains(jobs[1].Res.Violated, "HeapTopIsMin") && strings.Contains(jobs[2].Res.Violated, "HeapTopIsMin")
	r.Set("selftest_found_variants_refuted", selfOK)
	if !selfOK {
		r.Inconclusive("self-test: TLC did not refute the monitor bookkeeping as found: " + jobs[1].Res.Describe() + " / " + jobs[2].Res.Describe())
		return
	}

	// 2. direction A: behaviours of the model replayed on real monitors, HighestPriority() compared with the
	//    property-level value of the model after every step
	nb := pick(tier, 300, 3000)
	res := runMC(r, tlc.Options{Module: "MCMonitor", Config: "Monitor_sim.cfg", Workers: 1, Timeout: 10 * time.Minute,
		Args: []string{"-simulate", fmt.Sprintf("num=%d", nb), "-depth", "60", "-seed", strconv.FormatInt(r.Seed, 10)}})
	if res == nil {
		return
	}
	seen := map[string]bool{}
	replayed := 0
	replay := func(js, mode string) bool {
		if seen[js] {
			return true
		}
		seen[js] = true
		var raw [][]interface{}
		if json.Unmarshal([]byte(js), &raw) != nil {
			r.Inconclusive("cannot parse behaviour " + js)
			return false
		}
		var ops []monOp
		for _, e := range raw {
			ops = append(ops, monOp{e[0].(string), int(e[1].(float64)), int(e[2].(float64)), int(e[3].(float64))})
		}
		obs, err := replayMonitorOps(ops)
		r.Case("A:"+js, len(ops) > 3)
		replayed++
		if err != nil {
			r.Violation("C10 monitor-history engine-assertion", fmt.Sprintf("model behaviour not executable on the real monitors: %v", err), ops)
			return true
		}
		for k := range ops {
			if obs[k] != ops[k].HP {
				r.Violation(monSig(ops[:k+1]), fmt.Sprintf("HighestPriority()=%d after step %d %v, the specification says %d (%s)", obs[k], k, ops[k], ops[k].HP, mode), ops[:k+1])
				break
			}
		}
		if replayed == 1 {
			r.Sample(map[string]interface{}{"mode": mode, "ops": ops})
		}
		return true
	}
	// the counterexamples TLC found against the defect variants of the model are replayed on the real code first
	for _, j := range jobs[1:] {
		for _, js := range j.Res.Printed("BEHAVIOUR") {
			if !replay(js, "counterexample of the model variant "+j.Name+" replayed on the real monitors") {
				return
			}
		}
	}
	r.Set("counterexamples_replayed", replayed)
	for _, js := range res.Printed("BEHAVIOUR") {
		if !replay(js, "model behaviour replayed on real monitors") {
			return
		}
	}
	r.Set("monitor_behaviours_replayed", replayed)
	if replayed < 10 {
		r.Inconclusive("too few behaviours exported by TLC")
		return
	}

	// 3. direction B: long random histories on the real monitors, validated by TLC (Monitor_Trace)
	var trace []interface{}
	nh := pick(tier, 300, 3000)
	var starts []int
	var hists [][]monOp
	for h := 0; h < nh; h++ {
		var ops []monOp
		if h%2 == 0 {
			ops = randomMonitorHistory(rng, 4+rng.Intn(36), 1+rng.Intn(10))
		} else {
			ops = heapStressHistory(rng)
		}
		obs, err := replayMonitorOps(ops)
		if err != nil {
			r.Violation("C10 monitor-history engine-assertion", err.Error(), ops)
			continue
		}
		trace = append(trace, map[string]interface{}{"op": "reset", "m": 0, "p": 0, "hp": 0})
		starts = append(starts, len(trace))
		for k := range ops {
			ops[k].HP = obs[k]
			trace = append(trace, ops[k])
		}
		hists = append(hists, ops)
		r.Case(fmt.Sprint("B:", ops), len(ops) > 3)
	}
	bad, ok := validateTrace(r, "Monitor_Trace", "Monitor_Trace.cfg", trace, 10*time.Minute)
	if !ok {
		return
	}
	r.AddTraces(int64(len(hists) - len(bad)))
	for _, idx := range bad {
		h := 0
		for k := range starts {
			if starts[k] < idx {
				h = k
			}
		}
		upto := idx - starts[h]
		r.Violation(monSig(hists[h][:upto]), fmt.Sprintf("recorded monitor history rejected by Monitor_Trace at step %d: %v", upto-1, hists[h][upto-1]), hists[h][:upto])
	}

	// 4. cascades on the real processor: rule order, fail-fast, pop order, HighestPriority inside actions
	runCascades(r, rng, map[string]bool{"rstart": true, "pop": true, "hp": true, "push": true, "rend": true, "finished": true}, "C10")
}

// monSig classifies a failing monitor history: which defect class it exhibits.
func monSig(ops []monOp) string {
	skips := 0
	for _, o := range ops {
		if o.Op == "skip" {
			skips++
		}
	}
	if skips > 0 {
		return "C10 highest-priority wrong in a history with skipped monitors"
	}
	return "C10 highest-priority wrong in a history without skipped monitors"
}

// heapStressHistory activates many monitors with distinct priorities and finishes them in random
// order (with re-activations of freed priorities in between): exercises the heap of handled priorities.
func heapStressHistory(rng *rand.Rand) []monOp {
	k := 5 + rng.Intn(8)
	prios := rng.Perm(k + 3)[:k]
	ops := []monOp{{Op: "activate", M: 0, P: 0}}
	var active []int
	pr := map[int]int{0: 0}
	next := 1
	for _, p := range prios {
		ops = append(ops, monOp{Op: "create", M: next, P: p}, monOp{Op: "activate", M: next, P: p})
		pr[next] = p
		active = append(active, next)
		next++
	}
	if rng.Intn(2) == 0 {
		active = append(active, 0)
	}
	for len(active) > 0 {
		if rng.Intn(5) == 0 && len(active) > 1 {
			p := rng.Intn(k + 3)
			ops = append(ops, monOp{Op: "create", M: next, P: p}, monOp{Op: "activate", M: next, P: p})
			pr[next] = p
			active = append(active, next)
			next++
			continue
		}
		i := rng.Intn(len(active))
		m := active[i]
		active = append(active[:i], active[i+1:]...)
		if m == 0 && len(active) == 0 {
			// the root may only finish last if children were created under it (they were): fine
		}
		ops = append(ops, monOp{Op: "finish", M: m, P: pr[m]})
		if len(active) == 0 {
			break
		}
		// a child can only be created while some monitor is active
	}
	return ops
}

func randomMonitorHistory(rng *rand.Rand, steps, maxPrio int) []monOp {
	var ops []monOp
	st := map[int]string{0: "new"}
	pr := map[int]int{0: 0}
	next := 1
	anyActive := func() bool {
		for _, s := range st {
			if s == "active" {
				return true
			}
		}
		return false
	}
	for len(ops) < steps {
		var cands []monOp
		if anyActive() {
			cands = append(cands, monOp{Op: "create", M: next, P: rng.Intn(maxPrio + 1)})
		}
		for m := 0; m < next; m++ {
			s := st[m]
			if s == "new" {
				cands = append(cands, monOp{Op: "activate", M: m, P: pr[m]})
				if rng.Intn(3) == 0 {
					cands = append(cands, monOp{Op: "skip", M: m, P: pr[m]})
				}
			}
			if s == "active" && (m != 0 || rng.Intn(4) == 0) {
				cands = append(cands, monOp{Op: "finish", M: m, P: pr[m]})
			}
		}
		if len(cands) == 0 {
			break
		}
		// deterministic order for reproducibility, then pick
		best := cands[0]
		bi := -1
		for i, c := range cands {
			key := rng.Intn(1 << 20)
			if bi == -1 || key > bi {
				bi = key
				best = c
				_ = i
			}
		}
		op := best
		switch op.Op {
		case "create":
			st[op.M] = "new"
			pr[op.M] = op.P
			next++
		case "activate":
			st[op.M] = "active"
		case "skip", "finish":
			st[op.M] = "done"
		}
		ops = append(ops, op)
	}
	return ops
}

// runCascades runs cascade programs on the real processor (gate-scheduled and free) and validates the
// recorded runs against CascadeP_Trace. Rejections whose event class is in `mine` are violations of
// property `prop`; the others belong to the sibling property and are only noted.
func runCascades(r *ev.Run, rng *rand.Rand, mine map[string]bool, prop string) {
	tier := r.Tier
	var trace []interface{}
	type runInfo struct {
		prog     *CProg
		mode     string
		start    int
		schedule []string
		res      *cascadeResult
	}
	var runs []runInfo
	add := func(prog *CProg, mode string, res *cascadeResult) bool {
		if res.Err != nil {
			r.Inconclusive(fmt.Sprintf("cascade run %s (%s): %v", prog.Name, mode, res.Err))
			return false
		}
		ri := runInfo{prog: prog, mode: mode, start: len(trace), res: res}
		if res.Outcome != nil {
			ri.schedule = res.Outcome.Schedule
		}
		trace = append(trace, res.P...)
		runs = append(runs, ri)
		r.Case(prog.Name+":"+mode+":"+strings.Join(ri.schedule, ","), len(res.P) > 8)
		for _, p := range res.Panics {
			if prop == "C02" {
				r.Violation("C02 panic "+firstWords(p, 8), "engine panicked during a cascade: "+p, map[string]interface{}{"prog": prog, "mode": mode, "schedule": ri.schedule})
			}
		}
		return true
	}
	nProg := pick(tier, 60, 300)
	nSched := pick(tier, 8, 24)
	stuckRuns := 0
	for k := 0; k < nProg; k++ {
		workers := 1 + rng.Intn(3)
		prog := randomCascade(rng, fmt.Sprintf("rnd%d", k), 1+rng.Intn(2), 3, 2, 3, workers)
		prog.ErrObs = k%3 == 0
		for j := 0; j < nSched; j++ {
			var ch sched.Chooser
			if j%2 == 0 {
				ch = &sched.RandomChooser{R: rng}
			} else {
				pct := sched.NewPCT(rng, 200, 4)
				pct.IsPoll = func(p string) bool { return cascadePollGates[p] }
				ch = pct
			}
			xres := runCascadeExplore(prog, ch)
			if xres.Stuck {
				stuckRuns++
			}
			if !add(prog, "explore", xres) {
				return
			}
			if stuckRuns >= 6 {
				break
			}
		}
		if stuckRuns >= 6 {
			r.Logf("six explored runs left callers or workers which never end: the remaining explored runs are not made (each costs its clean-up bounds)")
			break
		}
	}
	nFree := pick(tier, 80, 600)
	hungFree := 0
	for k := 0; k < nFree; k++ {
		if hungFree >= 4 || stuckRuns >= 6 {
			r.Logf("four free runs ended with waiting callers: the remaining free runs are not made (each costs its whole time bound)")
			break
		}
		workers := 1 + rng.Intn(16)
		prog := randomCascade(rng, fmt.Sprintf("free%d", k), 2+rng.Intn(2), 3, 3, 4, workers)
		for i := range prog.Rules {
			prog.Rules[i].HP = workers == 1 // samples are only ordered with a single worker
		}
		prog.ErrObs = k%3 == 0
		fres := runCascadeFree(prog)
		if fres.Hung {
			hungFree++
		}
		if !add(prog, "free", fres) {
			return
		}
	}
	bad, ok := validateTrace(r, "CascadeP_Trace", "CascadeP_Trace.cfg", trace, 20*time.Minute)
	if !ok {
		return
	}
	r.Set("cascade_runs", len(runs))
	r.Set("cascade_trace_events", len(trace))
	mineBad := 0
	for _, idx := range bad {
		var ri *runInfo
		for k := range runs {
			if runs[k].start < idx {
				ri = &runs[k]
			}
		}
		e := trace[idx-1].(map[string]interface{})
		cls := fmt.Sprint(e["ev"])
		evt, _ := json.Marshal(e)
		if !mine[cls] {
			fmt.Printf("NOTE property=%s: cascade run rejected at a %q event (judged by the sibling check): %s\n", prop, cls, evt)
			continue
		}
		mineBad++
		r.Violation(fmt.Sprintf("%s cascade rejected-event=%s mode=%s", prop, cls, ri.mode),
			fmt.Sprintf("real processor run (%s, program %s, %d workers, failfast=%v) rejected by CascadeP_Trace at event %s", ri.mode, ri.prog.Name, ri.prog.Workers, ri.prog.FailFast, evt),
			map[string]interface{}{"prog": ri.prog, "mode": ri.mode, "schedule": ri.schedule, "trace": ri.res.P})
	}
	r.AddTraces(int64(len(runs) - mineBad))
	if len(runs) > 0 {
		last := runs[len(runs)/2]
		r.Sample(map[string]interface{}{"mode": last.mode, "prog": last.prog, "property_level_trace_head": head(last.res.P, 25)})
	}
}

func head(xs []interface{}, n int) []interface{} {
	if len(xs) > n {
		return xs[:n]
	}
	return xs
}

func firstWords(s string, n int) string {
	f := strings.Fields(s)
	if len(f) > n {
		f = f[:n]
	}
	return strings.Join(f, " ")
}
