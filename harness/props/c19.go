//go:build verif

package props

import (
	"errors"
	"fmt"
	"math"
	"math/rand"
	"os"
	"os/exec"
	"reflect"
	"strings"
	"sync"
	"sync/atomic"
	"time"

	"github.com/krotik/ecal/stdlib"
	"github.com/krotik/ecal/verifhook"

	"verif/harness/ev"
)

type brSig struct {
	Params   []string `json:"params"`
	Variadic bool     `json:"variadic"`
	Results  []string `json:"results"`
	Err      string   `json:"err"`
	Panics   bool     `json:"panics"`
}

type brRecv struct {
	I     int  `json:"i"`
	Exact bool `json:"exact"`
	V     int  `json:"v"`
	Same  bool `json:"same"`
	f     float64
}

type brRet struct {
	T string `json:"t"`
	V int    `json:"v"`
}

type brRec struct {
	Sig     *brSig   `json:"sig"`
	Args    []string `json:"args"`
	Outcome string   `json:"outcome"`
	Invoked bool     `json:"invoked"`
	Recv    []brRecv `json:"recv"`
	Shape   string   `json:"shape"`
	Ret     []brRet  `json:"ret"`
	Outs    []int    `json:"outs"`
	ErrText bool     `json:"errtext"`
	Via     string   `json:"via"`
	detail  string
}

type brCelsius float64

var brErrType = reflect.TypeOf((*error)(nil)).Elem()
var brIfaceType = reflect.TypeOf((*interface{})(nil)).Elem()

var brKindType = map[string]reflect.Type{
	"int": reflect.TypeOf(int(0)), "int8": reflect.TypeOf(int8(0)), "int16": reflect.TypeOf(int16(0)), "int32": reflect.TypeOf(int32(0)), "int64": reflect.TypeOf(int64(0)),
	"uint": reflect.TypeOf(uint(0)), "uint8": reflect.TypeOf(uint8(0)), "uint16": reflect.TypeOf(uint16(0)), "uint32": reflect.TypeOf(uint32(0)), "uint64": reflect.TypeOf(uint64(0)),
	"uintptr": reflect.TypeOf(uintptr(0)), "float32": reflect.TypeOf(float32(0)), "float64": reflect.TypeOf(float64(0)),
	"string": reflect.TypeOf(""), "bool": reflect.TypeOf(true), "iface": brIfaceType,
	"list": reflect.TypeOf([]interface{}{}), "map": reflect.TypeOf(map[interface{}]interface{}{}), "error": brErrType,
	"nint": reflect.TypeOf(time.Duration(0)), "nfloat": reflect.TypeOf(brCelsius(0)), "nhuge": reflect.TypeOf(uint64(0)),
}

var brParamKinds = []string{"int", "int8", "int16", "int32", "int64", "uint", "uint8", "uint16", "uint32", "uint64", "uintptr", "float32", "float64", "string", "bool", "iface", "list", "map"}

// sample output per result kind and twice its value
var brOut = map[string]struct {
	v interface{}
	s int
}{
	"int": {int(-3), -6}, "int8": {int8(-3), -6}, "int16": {int16(-300), -600}, "int32": {int32(-70000), -140000}, "int64": {int64(-3), -6},
	"uint": {uint(7), 14}, "uint8": {uint8(200), 400}, "uint16": {uint16(60000), 120000}, "uint32": {uint32(70000), 140000}, "uint64": {uint64(7), 14},
	"uintptr": {uintptr(7), 14}, "float32": {float32(0.5), 1}, "float64": {float64(2.5), 5},
	"string": {"r", 0}, "bool": {true, 0}, "iface": {int16(5), 10}, "list": {[]interface{}{float64(1)}, 0},
	"nint": {time.Duration(1500), 3000}, "nfloat": {brCelsius(36.5), 73},
	// an unsigned result beyond the signed 64 bit range (exactly representable as an ECAL number): its faithful arrival is
	// reported to the trace specification as the token brHugeToken
	"nhuge": {brHugeOut, brHugeToken},
}

const brHugeOut = uint64(1<<63 + 1<<62)
const brHugeToken = 7777

var brNumVal = map[string]float64{"n0": 0, "n1": 1, "nm1": -1, "n2h": 2.5, "nm2h": -2.5, "n127": 127, "n128": 128, "n255": 255, "n256": 256, "nm129": -129,
	"n65535": 65535, "n65536": 65536, "n1e6": 1e6, "n3e9": 3e9, "nm3e9": -3e9, "n1e19": 1e19, "nm1e19": -1e19, "nan": math.NaN(), "inf": math.Inf(1)}

var brArgNames = []string{"n0", "n1", "nm1", "n2h", "nm2h", "n127", "n128", "n255", "n256", "nm129", "n65535", "n65536", "n1e6", "n3e9", "nm3e9", "n1e19", "nm1e19", "nan", "inf",
	"null", "true", "str", "list", "map", "func"}

func brArgValue(name string) interface{} {
	if f, ok := brNumVal[name]; ok {
		return f
	}
	switch name {
	case "true":
		return true
	case "str":
		return "s"
	case "list":
		return []interface{}{float64(1), "x"}
	case "map":
		return map[interface{}]interface{}{"k": float64(1)}
	case "func":
		return &goFunc{func(uint64, []interface{}) (interface{}, error) { return nil, nil }}
	}
	return nil
}

func scaled(f float64) (int, bool) {
	s := f * 2
	if s != math.Trunc(s) || math.Abs(s) > 2147483000 {
		return 0, false
	}
	return int(s), true
}

type brCall struct {
	invoked bool
	recv    []brRecv
}

// build makes the synthetic Go function of a signature; what it observes goes to *cur.
func (s *brSig) build(cur **brCall) reflect.Value {
	var in, out []reflect.Type
	for i, k := range s.Params {
		t := brKindType[k]
		if s.Variadic && i == len(s.Params)-1 {
			t = reflect.SliceOf(t)
		}
		in = append(in, t)
	}
	for _, k := range s.Results {
		out = append(out, brKindType[k])
	}
	if s.Err != "none" {
		out = append(out, brErrType)
	}
	ft := reflect.FuncOf(in, out, s.Variadic)
	return reflect.MakeFunc(ft, func(args []reflect.Value) []reflect.Value {
		c := *cur
		c.invoked = true
		idx := 0
		note := func(v reflect.Value) {
			idx++
			if v.Kind() == reflect.Interface && !v.IsNil() {
				v = v.Elem()
			}
			var f float64
			switch v.Kind() {
			case reflect.Int, reflect.Int8, reflect.Int16, reflect.Int32, reflect.Int64:
				f = float64(v.Int())
			case reflect.Uint, reflect.Uint8, reflect.Uint16, reflect.Uint32, reflect.Uint64, reflect.Uintptr:
				f = float64(v.Uint())
			case reflect.Float32, reflect.Float64:
				f = v.Float()
			default:
				return
			}
			sv, ok := scaled(f)
			c.recv = append(c.recv, brRecv{I: idx, Exact: ok, V: sv, f: f})
		}
		for i, a := range args {
			if s.Variadic && i == len(args)-1 {
				for j := 0; j < a.Len(); j++ {
					note(a.Index(j))
				}
			} else {
				note(a)
			}
		}
		if s.Panics {
			panic("synthetic function panics")
		}
		var res []reflect.Value
		for _, k := range s.Results {
			if k == "error" {
				res = append(res, reflect.Zero(brErrType))
			} else if k == "iface" {
				v := reflect.New(brIfaceType).Elem()
				v.Set(reflect.ValueOf(brOut[k].v))
				res = append(res, v)
			} else {
				res = append(res, reflect.ValueOf(brOut[k].v))
			}
		}
		switch s.Err {
		case "nil":
			res = append(res, reflect.Zero(brErrType))
		case "err":
			res = append(res, reflect.ValueOf(errors.New("synthetic error")).Convert(brErrType))
		}
		return res
	})
}

func brDescribe(ret interface{}, sig *brSig) (string, []brRet) {
	item := func(v interface{}) brRet {
		switch x := v.(type) {
		case nil:
			return brRet{T: "null"}
		case float64:
			if x == float64(brHugeOut) {
				return brRet{T: "number", V: brHugeToken}
			}
			if sv, ok := scaled(x); ok {
				return brRet{T: "number", V: sv}
			}
			return brRet{T: "number", V: -999999}
		case string:
			return brRet{T: "string"}
		case bool:
			return brRet{T: "bool"}
		case []interface{}:
			return brRet{T: "list"}
		}
		return brRet{T: "other:" + fmt.Sprintf("%T", v)}
	}
	if vals, ok := ret.([]interface{}); ok {
		single := len(sig.Results) == 1 && sig.Results[0] == "list" && reflect.DeepEqual(ret, brOut["list"].v)
		if !single {
			out := []brRet{}
			for _, v := range vals {
				out = append(out, item(v))
			}
			return "list", out
		}
	}
	return "single", []brRet{item(ret)}
}

func init() { childModes["c19conc"] = c19ConcChild }

// c19ConcChild: 16 goroutines call bridged functions of several hundred function types for the first time at the same
// moment (whatever the bridge remembers per function type is set up concurrently). A fatal error of the runtime ends
// this process; the parent reads that as a crash of the bridge.
func c19ConcChild(args []string) {
	verifhook.Set(func(string, ...interface{}) {})
	var cur *brCall
	_ = cur
	type entry struct {
		ad   *stdlib.ECALFunctionAdapter
		args []interface{}
	}
	var entries []entry
	for _, a := range brParamKinds {
		for _, b := range brParamKinds {
			sig := &brSig{Params: []string{a, b}, Results: []string{"int"}, Err: "nil"}
			call := &brCall{}
			pc := &call
			fn := sig.build(pc)
			entries = append(entries, entry{stdlib.NewECALFunctionAdapter(fn, ""), []interface{}{float64(1), float64(2)}})
		}
	}
	var wg sync.WaitGroup
	start := make(chan struct{})
	var bad int64
	for w := 0; w < 16; w++ {
		w := w
		wg.Add(1)
		go func() {
			defer wg.Done()
			<-start
			for k := range entries {
				e := entries[(k*7+w*13)%len(entries)]
				func() {
					defer func() {
						if r := recover(); r != nil {
							atomic.AddInt64(&bad, 1)
						}
					}()
					e.ad.Run("", nil, nil, 0, e.args)
				}()
			}
		}()
	}
	close(start)
	wg.Wait()
	fmt.Printf("C19CONC done escaped_panics=%d\n", atomic.LoadInt64(&bad))
	os.Exit(0)
}

// C19 is the driver of property C19.
func C19(r *ev.Run) {
	tier := r.Tier
	rng := rand.New(rand.NewSource(r.Seed))
	verifhook.Set(func(string, ...interface{}) {})
	r.Assume("a call with the right number of arguments, numbers for numeric parameters, a string / boolean / map for such parameters must reach the Go function; whether interface, []interface{} and variadic parameters accept a value is left open by the statement (an error is allowed); a Go number inside an interface result counts as a Go number")

	// signatures
	resultSets := [][]string{{}, {"int8"}, {"uint64"}, {"float32"}, {"float64"}, {"string"}, {"iface"}, {"int", "string"}, {"float64", "bool", "uint16"}, {"list"},
		{"error", "int32"}, {"uintptr", "uint8", "int16", "int64", "uint32"}, {"uint", "int32", "uint16"}, {"nint"}, {"nfloat", "string", "nint"}, {"nhuge"}, {"string", "nhuge", "int8"}}
	var paramSets [][]string
	paramSets = append(paramSets, []string{})
	for _, a := range brParamKinds {
		paramSets = append(paramSets, []string{a})
	}
	for _, a := range brParamKinds {
		for _, b := range brParamKinds {
			paramSets = append(paramSets, []string{a, b})
		}
	}
	for k := 0; k < pick(tier, 40, 300); k++ {
		paramSets = append(paramSets, []string{brParamKinds[rng.Intn(len(brParamKinds))], brParamKinds[rng.Intn(len(brParamKinds))], brParamKinds[rng.Intn(len(brParamKinds))]})
	}
	var sigs []*brSig
	n := 0
	addSig := func(params []string, variadic bool) {
		s := &brSig{Params: params, Variadic: variadic, Results: resultSets[n%len(resultSets)], Err: []string{"none", "nil", "err"}[(n/len(resultSets))%3], Panics: n%11 == 10}
		if s.Results == nil {
			s.Results = []string{}
		}
		sigs = append(sigs, s)
		n++
	}
	for _, p := range paramSets {
		addSig(p, false)
	}
	addSig([]string{"iface"}, true) // the shape of every plugin function
	addSig([]string{"iface"}, true)
	addSig([]string{"iface"}, true)
	for _, a := range brParamKinds {
		addSig([]string{a, "iface"}, true)
		addSig([]string{a, "float64"}, true)
	}
	// the plugin shape with each way of ending
	for _, e := range []string{"nil", "err"} {
		sigs = append(sigs, &brSig{Params: []string{"iface"}, Variadic: true, Results: []string{"iface"}, Err: e})
	}

	// argument vectors
	var vectors [][]string
	vectors = append(vectors, []string{})
	for _, a := range brArgNames {
		vectors = append(vectors, []string{a})
	}
	for _, a := range brArgNames {
		for _, b := range brArgNames {
			vectors = append(vectors, []string{a, b})
		}
	}
	small := []string{"n1", "nm2h", "n256", "nm129", "n1e19", "nan", "null", "true", "str", "list", "map", "func"}
	if tier == "thorough" {
		for _, a := range small {
			for _, b := range small {
				for _, c := range small {
					vectors = append(vectors, []string{a, b, c})
				}
			}
		}
	}
	pickN := func(k int) []string {
		v := []string{}
		for i := 0; i < k; i++ {
			v = append(v, brArgNames[rng.Intn(len(brArgNames))])
		}
		return v
	}
	for k := 0; k < pick(tier, 150, 400); k++ {
		vectors = append(vectors, pickN(3), pickN(4))
	}

	var cur *brCall
	var trace []interface{}
	var recs []*brRec
	env := newEcalEnv(1)
	bindVerif("noop", func(uint64, []interface{}) (interface{}, error) { return nil, nil })
	stdlib.AddStdlibPkg("vb", "synthetic functions of the verification harness")
	ecalLit := map[string]string{"null": "null", "true": "true", "str": "\"s\"", "list": "[1, \"x\"]", "map": "{\"k\" : 1}", "func": "verif.noop",
		"n0": "0", "n1": "1", "nm1": "-1", "n2h": "2.5", "nm2h": "-2.5", "n127": "127", "n128": "128", "n255": "255", "n256": "256", "nm129": "-129",
		"n65535": "65535", "n65536": "65536", "n1e6": "1000000", "n3e9": "3000000000", "nm3e9": "-3000000000", "n1e19": "10000000000000000000", "nm1e19": "-10000000000000000000"}
	cases := 0
	for si, sig := range sigs {
		fn := sig.build(&cur)
		adapter := stdlib.NewECALFunctionAdapter(fn, "synthetic")
		fname := fmt.Sprintf("f%d", si)
		stdlib.AddStdlibFunc("vb", fname, adapter)
		for vi, vec := range vectors {
			// the signatures with three parameters only meet the longer vectors and a sample of the short ones
			if len(sig.Params) == 3 && len(vec) < 2 && vi%7 != 0 {
				continue
			}
			viaEcal := (si+vi)%23 == 0
			if viaEcal {
				for _, a := range vec {
					if _, ok := ecalLit[a]; !ok {
						viaEcal = false
					}
				}
			}
			rec := &brRec{Sig: sig, Args: vec, Recv: []brRecv{}, Ret: []brRet{}, Outs: []int{}, Shape: "none", Via: "adapter"}
			for _, k := range sig.Results {
				rec.Outs = append(rec.Outs, brOut[k].s)
			}
			cur = &brCall{}
			var ret interface{}
			var err error
			var pm, hung string
			if viaEcal {
				rec.Via = "ecal"
				var lits []string
				for _, a := range vec {
					lits = append(lits, ecalLit[a])
				}
				src := fmt.Sprintf("vb.%s(%s)", fname, strings.Join(lits, ", "))
				pm, hung = guarded(5*time.Second, func() { ret, err = env.run(src) })
			} else {
				var args []interface{}
				for _, a := range vec {
					args = append(args, brArgValue(a))
				}
				pm, hung = guarded(5*time.Second, func() { ret, err = adapter.Run("", nil, nil, 0, args) })
			}
			rec.Invoked = cur.invoked
			for _, x := range cur.recv {
				if x.I <= len(vec) {
					if want, isNum := brNumVal[vec[x.I-1]]; isNum {
						x.Same = x.f == want
						rec.Recv = append(rec.Recv, x)
					}
				}
			}
			switch {
			case pm != "" || hung != "":
				rec.Outcome, rec.detail = "fault", pm+hung
			case err != nil:
				rec.Outcome, rec.detail = "error", err.Error()
				rec.ErrText = strings.TrimSpace(err.Error()) != ""
			default:
				rec.Outcome = "results"
				rec.Shape, rec.Ret = brDescribe(ret, sig)
				rec.detail = fmt.Sprintf("%#v", ret)
			}
			recs = append(recs, rec)
			trace = append(trace, rec)
			cases++
			if cases%997 == 0 || len(vec) >= 3 {
				r.Case(fmt.Sprintf("%v/%v/%v/%s/%v|%v", sig.Params, sig.Variadic, sig.Results, sig.Err, sig.Panics, vec), len(vec) > 0)
			} else {
				r.Case(fmt.Sprintf("%d|%d", si, vi), len(vec) > 0)
			}
		}
	}
	r.Set("signatures", len(sigs))
	r.Set("argument_vectors", len(vectors))
	if len(recs) > 10 {
		for _, k := range []int{len(recs) / 3, len(recs) / 2} {
			r.Sample(map[string]interface{}{"signature": recs[k].Sig, "args": recs[k].Args, "outcome": recs[k].Outcome, "invoked": recs[k].Invoked, "received": recs[k].Recv, "detail": headStr(recs[k].detail, 120)})
		}
	}
	r.Checkpoint()

	// the generated stdlib: every function with every argument vector of up to 2 (3) values - totality; values of a table of functions
	_, _, funcs := stdlib.GetStdlibSymbols()
	known := map[string]interface{}{"math.sqrt": math.Sqrt, "math.floor": math.Floor, "math.ceil": math.Ceil, "math.abs": math.Abs, "math.pow": math.Pow, "math.max": math.Max,
		"math.min": math.Min, "math.mod": math.Mod, "math.trunc": math.Trunc, "math.exp": math.Exp, "math.log": math.Log, "math.hypot": math.Hypot, "math.atan2": math.Atan2, "math.cbrt": math.Cbrt}
	stdCalls, stdCompared := 0, 0
	for _, name := range funcs {
		if strings.HasPrefix(name, "vb.") || strings.HasPrefix(name, "verif.") {
			continue
		}
		f, ok := stdlib.GetStdlibFunc(name)
		if !ok {
			continue
		}
		for _, vec := range vectors {
			if len(vec) > pick(tier, 2, 3) {
				continue
			}
			var args []interface{}
			allNum, huge := true, false
			for _, a := range vec {
				args = append(args, brArgValue(a))
				if f, isNum := brNumVal[a]; !isNum {
					allNum = false
				} else if math.Abs(f) > 1e6 {
					huge = true
				}
			}
			if low := strings.ToLower(name); huge && (low == "math.jn" || low == "math.yn") {
				continue // Bessel functions of an order of billions: a long computation the caller asked for, not a hang
			}
			var ret interface{}
			var err error
			pm, hung := guarded(5*time.Second, func() { ret, err = f.Run("", nil, nil, 0, args) })
			stdCalls++
			if pm != "" || hung != "" {
				r.Violation("C19 fault in a stdlib call: "+firstWords(pm+hung, 6), fmt.Sprintf("%s(%v): %s%s", name, vec, pm, hung), map[string]interface{}{"function": name, "args": vec})
				continue
			}
			if err != nil && strings.TrimSpace(err.Error()) == "" {
				r.Violation("C19 error without text", fmt.Sprintf("%s(%v)", name, vec), map[string]interface{}{"function": name, "args": vec})
			}
			if g, ok := known[strings.ToLower(name)]; ok && allNum {
				gv := reflect.ValueOf(g)
				if gv.Type().NumIn() == len(args) {
					var in []reflect.Value
					for _, a := range args {
						in = append(in, reflect.ValueOf(a))
					}
					want := gv.Call(in)[0].Float()
					got, isNum := ret.(float64)
					stdCompared++
					if err != nil || !isNum || !(got == want || (math.IsNaN(got) && math.IsNaN(want))) {
						r.Violation("C19 stdlib function result differs from the Go function", fmt.Sprintf("%s(%v) = %v (error %v), Go gives %v", name, vec, ret, err, want), map[string]interface{}{"function": name, "args": vec})
					}
				}
			}
		}
	}
	r.Set("stdlib_functions", len(funcs))
	r.Set("stdlib_calls", stdCalls)
	r.Set("stdlib_results_compared", stdCompared)

	// first calls of many function types at the same moment, in processes of their own
	if self, err := os.Executable(); err == nil {
		for rep := 0; rep < pick(tier, 6, 40); rep++ {
			cmd := exec.Command(self, "C19")
			cmd.Env = append(os.Environ(), "VERIF_CHILD=c19conc")
			b, _ := cmd.CombinedOutput()
			out := string(b)
			r.Case(fmt.Sprintf("concurrent-first-calls/%d", rep), true)
			if strings.Contains(out, "C19CONC done escaped_panics=0") {
				continue
			}
			if strings.Contains(out, "C19CONC done") {
				r.Violation("C19 panic escapes the bridge under concurrent calls", firstLineWith(out, "C19CONC"), map[string]interface{}{"goroutines": 16})
			} else if crashLine(out) != "" {
				r.Violation("C19 process death under concurrent first calls of bridged functions: "+crashLine(out), "16 goroutines calling 324 bridged function types for the first time at once ended the process", map[string]interface{}{"output_head": headStr(out, 1500)})
			} else {
				r.Inconclusive("concurrent child gave no result: " + headStr(out, 300))
				return
			}
			break
		}
	}

	bad, ok := validateTrace(r, "Bridge_Trace", "Bridge_Trace.cfg", trace, 60*time.Minute)
	if !ok {
		return
	}
	badRecs := map[int]bool{}
	for _, code := range bad {
		idx, clause := code/10, code%10
		badRecs[idx] = true
		rec := recs[idx-1]
		sig := map[int]string{1: "C19 fault: " + firstWords(rec.detail, 6), 2: "C19 function " + map[bool]string{true: "invoked although the call does not fit", false: "not invoked although the call fits"}[rec.Invoked],
			3: "C19 numeric argument arrives with a wrong value", 4: "C19 outcome class: " + rec.Outcome + " " + map[bool]string{true: "after", false: "without"}[rec.Invoked] + " invocation",
			5: "C19 returned values not delivered as specified"}[clause]
		if clause == 2 && !rec.Invoked {
			sig += " (" + brWhy(rec) + ")"
		}
		if clause == 5 {
			sig += ": " + brRetWhy(rec)
		}
		r.Violation(sig, fmt.Sprintf("%s call f(%v) of func(%v variadic=%v) (%v, err=%s) panics=%v: outcome=%s invoked=%v recv=%v shape=%s ret=%v outs=%v %s", rec.Via, rec.Args, rec.Sig.Params, rec.Sig.Variadic,
			rec.Sig.Results, rec.Sig.Err, rec.Sig.Panics, rec.Outcome, rec.Invoked, rec.Recv, rec.Shape, rec.Ret, rec.Outs, headStr(rec.detail, 200)), rec)
	}
	r.AddTraces(int64(len(recs) - len(badRecs)))
	r.Set("bridge_calls", len(recs))
}

func brWhy(rec *brRec) string {
	for i, k := range rec.Sig.Params {
		if i < len(rec.Args) {
			if _, isNum := brNumVal[rec.Args[i]]; isNum && k != "iface" && k != "list" {
				return "number for " + k
			}
		}
	}
	return "non-numeric parameters"
}

func brRetWhy(rec *brRec) string {
	if rec.Outcome == "error" {
		return "error without text"
	}
	if len(rec.Ret) != len(rec.Sig.Results) {
		return "number of values"
	}
	for i, k := range rec.Sig.Results {
		if rec.Ret[i].T != "number" && (k == "iface" || brOut[k].s != 0) {
			return k + " result delivered as " + rec.Ret[i].T
		}
	}
	return "shape or value"
}
