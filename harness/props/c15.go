//go:build verif

package props

import (
	"encoding/json"
	"fmt"
	"math/rand"
	"sort"
	"strconv"
	"strings"
	"sync"
	"sync/atomic"
	"time"

	"github.com/krotik/ecal/engine"
	"github.com/krotik/ecal/interpreter"
	"github.com/krotik/ecal/parser"
	"github.com/krotik/ecal/scope"
	"github.com/krotik/ecal/util"
	"github.com/krotik/ecal/verifhook"

	"verif/harness/ev"
	"verif/harness/sched"
	"verif/harness/tlc"
)

// ---- the visits of a thread as the model sees them -----------------------------------------------------

type dbgVisit struct {
	K    string `json:"k"` // visit | in | out
	Line int    `json:"line"`
}

// visitFilter decides which debug.visit / stepin / stepout hooks are steps of the model: nodes without token
// (statement lists) are not looked at by VisitState, and a visit of the node the thread's previous hook was
// about is the debugger calling VisitState again from inside (function entry with a pending stop, dropped
// resume state, breakpoint while stepping out).
type visitFilter struct {
	mu   sync.Mutex
	last map[uint64]*parser.ASTNode
}

func newVisitFilter() *visitFilter { return &visitFilter{last: map[uint64]*parser.ASTNode{}} }

func (f *visitFilter) step(point string, args []interface{}) (dbgVisit, bool) {
	var kind string
	switch point {
	case "debug.visit":
		kind = "visit"
	case "debug.stepin":
		kind = "in"
	case "debug.stepout":
		kind = "out"
		if len(args) > 2 && args[2] != nil {
			if e, ok := args[2].(error); ok && e != nil {
				kind = "outerr"
			}
		}
	default:
		return dbgVisit{}, false
	}
	tid, _ := args[0].(uint64)
	node, _ := args[1].(*parser.ASTNode)
	if node == nil || node.Token == nil {
		return dbgVisit{}, false
	}
	f.mu.Lock()
	defer f.mu.Unlock()
	if kind == "visit" && f.last[tid] == node {
		return dbgVisit{}, false
	}
	f.last[tid] = node
	return dbgVisit{K: kind, Line: node.Token.Lline}, true
}

// ---- programs of the follow mode -------------------------------------------------------------------------

var c15Progs = []string{
	"x := 1\nfunc g(p) {\n    v := p\n    return v + 1\n}\nfunc f(q) {\n    w := g(q)\n    return w + 1\n}\ny := f(x)\nz := y + 1\n",
	strings.Repeat("\n", 20) + "a := 1\nb := a + 1\nc := b\n",
}
var c15Lines = [][]int{{1, 3, 7, 10}, {2, 22}} // 1 / 10 and 2 / 22: one breakpoint key is a prefix of the other

// a program whose error leaves two frames before it is caught (break on error suspends where it leaves the first)
var c15ErrProg = "x := 1\nfunc g(p) {\n    raise(\"E\", \"d\")\n}\nfunc f(q) {\n    w := g(q)\n    return w\n}\ntry {\n    y := f(x)\n} except e {\n    z := 2\n}\nv := 3\n"
var c15ErrLines = []int{3, 6, 12}

type dbgRig struct {
	erp  *interpreter.ECALRuntimeProvider
	dbg  util.ECALDebugger
	vs   parser.Scope
	asts []*parser.ASTNode
	tids []uint64
}

func newDbgRig(progs []string) (*dbgRig, error) {
	vs := scope.NewScope(scope.GlobalScope)
	erp := interpreter.NewECALRuntimeProvider("prog", nil, util.NewMemoryLogger(100))
	erp.Cron.Stop()
	erp.Debugger = interpreter.NewECALDebugger(vs)
	rig := &dbgRig{erp: erp, dbg: erp.Debugger, vs: vs}
	for _, p := range progs {
		ast, err := parser.ParseWithRuntime("prog", p, erp)
		if err == nil {
			err = ast.Runtime.Validate()
		}
		if err != nil {
			return nil, err
		}
		rig.asts = append(rig.asts, ast)
		rig.tids = append(rig.tids, erp.NewThreadID())
	}
	return rig, nil
}

func (rig *dbgRig) eval(k int) {
	rig.asts[k].Runtime.Eval(rig.vs, make(map[string]interface{}), rig.tids[k])
	rig.dbg.RecordThreadFinished(rig.tids[k])
}

// recordVisits runs the programs without breakpoints and returns the visits of each thread.
func recordVisits(progs []string) ([][]dbgVisit, error) {
	rig, err := newDbgRig(progs)
	if err != nil {
		return nil, err
	}
	rig.dbg.BreakOnError(false) // nobody continues the dry run
	out := make([][]dbgVisit, len(progs))
	flt := newVisitFilter()
	var mu sync.Mutex
	verifhook.Set(func(point string, args ...interface{}) {
		if v, ok := flt.step(point, args); ok {
			tid := args[0].(uint64)
			mu.Lock()
			for k, t := range rig.tids {
				if t == tid {
					out[k] = append(out[k], v)
				}
			}
			mu.Unlock()
		}
	})
	for k := range progs {
		rig.eval(k)
	}
	verifhook.Set(func(string, ...interface{}) {})
	return out, nil
}

// ---- following a behaviour of Debugger.tla on the real debugger ------------------------------------------

type dbgStep struct {
	A       string   `json:"a"`
	T       int      `json:"t"`
	Arg     string   `json:"arg"`
	PC      []string `json:"pc"`
	IP      []int    `json:"ip"`
	On      []bool   `json:"on"`
	Running []bool   `json:"running"`
	Depth   []int    `json:"depth"`
	BP      []int    `json:"bp"`
}

type followResult struct {
	drift     string
	violation string
	sig       string
	steps     int
}

var contTypes = map[string]util.ContType{"Resume": util.Resume, "StepIn": util.StepIn, "StepOver": util.StepOver, "StepOut": util.StepOut}

// followDebugger replays the steps. strict: the projection of the real state is compared with the model after
// every step (behaviours of the variant which models the code); otherwise only the property is judged.
func followDebugger(progs []string, visits [][]dbgVisit, steps []dbgStep, strict bool) *followResult {
	res := &followResult{}
	rig, err := newDbgRig(progs)
	if err != nil {
		res.drift = "setup: " + err.Error()
		return res
	}
	flt := newVisitFilter()
	s := sched.New(true)
	s.StableTimeout = 10 * time.Second
	s.IsGate = func(point string, args []interface{}) bool {
		switch point {
		case "debug.suspend", "debug.resumed":
			return true
		case "debug.visit", "debug.stepin", "debug.stepout":
			_, ok := flt.step(point, args)
			return ok
		}
		return false
	}
	verifhook.Set(s.Handle)
	defer verifhook.Set(func(string, ...interface{}) {})
	names := []string{}
	for k := range progs {
		k := k
		name := fmt.Sprintf("t%d", k+1)
		names = append(names, name)
		s.Spawn(name, func() { rig.eval(k) })
	}
	// every call into the debugger is bounded: a command which never returns is itself a finding (a leaked lock
	// makes the thread it belongs to unreachable for every later command)
	stuckCall := ""
	call := func(what string, f func()) bool {
		if stuckCall != "" {
			return false
		}
		if _, hung := guarded(5*time.Second, f); hung != "" {
			stuckCall = what + " (" + hung + ")"
			return false
		}
		return true
	}
	finish := func() {
		s.OpenAll()
		for i := 0; i < 40; i++ {
			if !call("StopThreads", func() { rig.dbg.StopThreads(0) }) {
				return
			}
			if s.WaitDone(names, 50*time.Millisecond) {
				return
			}
		}
	}
	stable := func() *sched.Stable {
		st, err := s.WaitStable()
		if err != nil {
			res.drift = "no stable state: " + err.Error()
			return nil
		}
		return st
	}
	st := stable()
	if st == nil {
		finish()
		return res
	}
	for _, n := range names { // from the spawn gate to the first visit
		s.Release(n)
	}
	if st = stable(); st == nil {
		finish()
		return res
	}
	bp := map[int]bool{}
	prevLine := make([]int, len(progs))
	pos := make([]int, len(progs)) // index of the visit the thread stands before (1-based), as far as the real thread got
	for k := range pos {
		pos[k] = 1
	}
	pendingIn := make([]bool, len(progs))
	owed := make([]bool, len(progs)) // a continue command was addressed to the thread while it was reported as suspended
	killing := false
	point := map[string]string{"visit": "debug.visit", "in": "debug.stepin", "out": "debug.stepout", "outerr": "debug.stepout"}
	where := func(st *sched.Stable, k int) string {
		ts, _ := st.Get(names[k])
		switch {
		case ts.Done:
			return "done"
		case ts.Parked != "":
			return ts.Parked
		}
		return "blocked:" + ts.Wait
	}
	lostWakeup := func(st *sched.Stable) bool {
		for k := range progs {
			if w := where(st, k); strings.Contains(w, "Cond.Wait") {
				if d, _ := rig.dbg.Describe(rig.tids[k]).(map[string]interface{}); d != nil {
					if running, _ := d["threadRunning"].(bool); running {
						res.sig = "C15 lost wake-up: thread waits although it is reported as running"
						res.violation = fmt.Sprintf("thread %d waits in cond.Wait while the debugger reports threadRunning=true: no continue command can reach it any more", rig.tids[k])
						return true
					}
				}
			}
		}
		return false
	}
	for i, step := range steps {
		res.steps = i
		if step.A == "Init" {
			for _, l := range step.BP {
				bp[l] = true
				rig.dbg.SetBreakPoint("prog", l)
			}
			continue
		}
		k := step.T - 1
		switch step.A {
		case "Visit", "StepIn", "StepOut", "StepOutErr":
			if step.A == "StepIn" && pendingIn[k] {
				pendingIn[k] = false // the real thread completed the entry when it was resumed
				break
			}
			cur := visits[k][pos[k]-1]
			if w := where(st, k); w != point[cur.K] {
				res.drift = fmt.Sprintf("step %d %s(t%d): the real thread is at %s, the model at %s line %d", i, step.A, step.T, w, cur.K, cur.Line)
				break
			}
			s.Release(names[k])
			if st = stable(); st == nil {
				break
			}
			w := where(st, k)
			// the property itself: arriving from another line at an active breakpoint suspends
			if cur.K == "visit" && bp[cur.Line] && prevLine[k] != cur.Line && w != "debug.suspend" && !(killing && w == "done") {
				res.sig = "C15 active breakpoint passed without suspending"
				res.violation = fmt.Sprintf("thread %d arrived at line %d (from line %d) with an active breakpoint and went on to %s", rig.tids[k], cur.Line, prevLine[k], w)
			}
			if w != "debug.suspend" && w != "done" {
				pos[k]++
			}
			if cur.K == "visit" {
				prevLine[k] = cur.Line
			}
		case "Park":
			if w := where(st, k); w != "debug.suspend" {
				res.drift = fmt.Sprintf("step %d Park(t%d): the real thread is at %s", i, step.T, w)
				break
			}
			s.Release(names[k])
			st = stable()
		case "Resumed":
			if w := where(st, k); w != "debug.resumed" {
				res.drift = fmt.Sprintf("step %d Resumed(t%d): the real thread is at %s", i, step.T, w)
				break
			}
			if visits[k][pos[k]-1].K == "in" {
				pendingIn[k] = true
			}
			s.Release(names[k])
			if st = stable(); st != nil {
				if w := where(st, k); w != "done" && w != "debug.suspend" {
					pos[k]++
				}
			}
		case "Continue":
			if d, _ := rig.dbg.Describe(rig.tids[k]).(map[string]interface{}); d != nil {
				if running, _ := d["threadRunning"].(bool); !running {
					owed[k] = true
				}
			}
			done := make(chan struct{})
			go func() { rig.dbg.Continue(rig.tids[k], contTypes[step.Arg]); close(done) }()
			select {
			case <-done:
			case <-time.After(5 * time.Second):
				res.sig = "C15 continue command does not return"
				res.violation = fmt.Sprintf("Continue(%d, %s) blocked", rig.tids[k], step.Arg)
			}
			st = stable()
		case "StopThreads":
			call("StopThreads", func() { rig.dbg.StopThreads(0) })
			killing = true
			st = stable()
		case "SetBreak", "RmBreak", "DisableBreak":
			l, _ := strconv.Atoi(step.Arg)
			if step.A == "SetBreak" {
				call("SetBreakPoint", func() { rig.dbg.SetBreakPoint("prog", l) })
				bp[l] = true
			} else if step.A == "DisableBreak" {
				call("DisableBreakPoint", func() { rig.dbg.DisableBreakPoint("prog", l) })
				delete(bp, l)
			} else {
				call("RemoveBreakPoint", func() { rig.dbg.RemoveBreakPoint("prog", l) })
				delete(bp, l)
			}
		}
		if stuckCall != "" {
			res.sig = "C15 debugger command does not return"
			res.violation = fmt.Sprintf("step %d %s(t%d %s): the call %s never returned - the threads it manages cannot be reached any more", i, step.A, step.T, step.Arg, stuckCall)
		}
		if st == nil || res.drift != "" || res.violation != "" {
			break
		}
		if lostWakeup(st) {
			break
		}
		// in a stable state every command has returned and every other thread stands at a gate or waits for a
		// command: a thread that waits for a lock then waits for a lock nobody is going to release
		for t := range progs {
			if w := where(st, t); strings.Contains(w, "Mutex.Lock") {
				res.sig = "C15 thread blocked on a debugger lock which is never released"
				res.violation = fmt.Sprintf("after step %d %s(t%d %s): thread %d is %s while no command is in progress - it cannot be suspended, described or continued any more", i, step.A, step.T, step.Arg, rig.tids[t], w)
			}
		}
		if res.violation != "" {
			break
		}
		// a thread reported as suspended is released by the next continue addressed to it: once it is past its gate
		// it must not wait any more
		for t := range progs {
			w := where(st, t)
			if owed[t] && strings.Contains(w, "Cond.Wait") {
				res.sig = "C15 continue command consumed without releasing the suspended thread"
				res.violation = fmt.Sprintf("thread %d was reported as suspended, a continue command was addressed to it, and it waits in cond.Wait", rig.tids[t])
			} else if w != "debug.suspend" {
				owed[t] = false
			}
		}
		if res.violation != "" {
			break
		}
		if strict {
			for t := range progs {
				w := where(st, t)
				want := step.PC[t]
				ok := false
				switch want {
				case "gate":
					ok = w == "debug.suspend"
				case "waiting":
					ok = strings.Contains(w, "Cond.Wait")
				case "resumed":
					ok = w == "debug.resumed"
				case "done", "killed":
					ok = w == "done"
				case "run":
					ok = w == "debug.visit" || w == "debug.stepin" || w == "debug.stepout"
					if pendingIn[t] {
						ok = ok || w == "done"
					}
				}
				if !ok {
					res.drift = fmt.Sprintf("after step %d %s(t%d %s): model pc[t%d]=%s, real thread at %s", i, step.A, step.T, step.Arg, t+1, want, w)
					break
				}
				d, _ := rig.dbg.Describe(rig.tids[t]).(map[string]interface{})
				if want == "done" || want == "killed" {
					continue
				}
				if (d != nil) != step.On[t] {
					res.drift = fmt.Sprintf("after step %d %s(t%d %s): interrogation state of t%d exists=%v, model %v", i, step.A, step.T, step.Arg, t+1, d != nil, step.On[t])
					break
				}
				if d != nil {
					if running, _ := d["threadRunning"].(bool); running != step.Running[t] {
						res.drift = fmt.Sprintf("after step %d %s(t%d %s): threadRunning of t%d is %v, model %v", i, step.A, step.T, step.Arg, t+1, running, step.Running[t])
						break
					}
					if cs, _ := d["callStack"].([]string); len(cs) != step.Depth[t] && !pendingIn[t] {
						res.drift = fmt.Sprintf("after step %d %s(t%d %s): call stack depth of t%d is %d, model %d", i, step.A, step.T, step.Arg, t+1, len(cs), step.Depth[t])
						break
					}
				}
			}
			if res.drift != "" {
				break
			}
		}
	}
	// stopping all threads releases every suspended one
	if res.violation == "" {
		s.OpenAll()
		ended := false
		for i := 0; i < 40 && !ended && stuckCall == ""; i++ {
			call("StopThreads", func() { rig.dbg.StopThreads(0) })
			ended = s.WaitDone(names, 50*time.Millisecond)
		}
		if stuckCall != "" {
			res.sig = "C15 debugger command does not return"
			res.violation = "after the behaviour: the call " + stuckCall + " never returned"
		} else if !ended {
			states := sched.GoroutineStates()
			_ = states
			res.sig = "C15 StopThreads leaves a thread suspended"
			res.violation = "after stopping all threads (repeatedly) a thread of the debugged program still waits"
		}
	} else {
		finish()
	}
	return res
}

func renderDbgMC(visits [][]dbgVisit, lines []int) string {
	var b strings.Builder
	b.WriteString("---- MODULE MCDbgRun ----\nEXTENDS Debugger\n")
	var progs []string
	for k, vs := range visits {
		var items []string
		for _, v := range vs {
			items = append(items, fmt.Sprintf("[k |-> \"%s\", line |-> %d]", v.K, v.Line))
		}
		fmt.Fprintf(&b, "R%d == <<%s>>\n", k+1, strings.Join(items, ", "))
		progs = append(progs, fmt.Sprintf("R%d", k+1))
	}
	fmt.Fprintf(&b, "RProg == <<%s>>\nRThreads == 1..%d\n", strings.Join(progs, ", "), len(visits))
	var ls []string
	for _, l := range lines {
		ls = append(ls, strconv.Itoa(l))
	}
	fmt.Fprintf(&b, "RLines == {%s}\n====\n", strings.Join(ls, ", "))
	return b.String()
}

func dbgCfg(variant string, hist bool, maxCmds int, invs ...string) string {
	var b strings.Builder
	fmt.Fprintf(&b, "SPECIFICATION Spec\nCONSTANTS Variant = \"%s\" RecordHist = %s MaxCmds = %d\nCONSTANT Threads <- RThreads\nCONSTANT Prog <- RProg\nCONSTANT Lines <- RLines\nCHECK_DEADLOCK FALSE\n",
		variant, strings.ToUpper(strconv.FormatBool(hist)), maxCmds)
	for _, inv := range invs {
		if inv == "VIEW" { // search as if the history variables were not there
			b.WriteString("VIEW view\n")
			continue
		}
		if inv == "StopReleasesAll" { // an action property
			fmt.Fprintf(&b, "PROPERTY %s\n", inv)
			continue
		}
		fmt.Fprintf(&b, "INVARIANT %s\n", inv)
	}
	return b.String()
}

func parseDbgBehaviour(js string) []dbgStep {
	var steps []dbgStep
	if json.Unmarshal([]byte(js), &steps) != nil {
		return nil
	}
	return steps
}

// ---- transparency: debugged run = plain run ----------------------------------------------------------------

type c15Outcome struct {
	res  string
	logs string
	vars string
}

var c15Count int64

// runObserved evaluates a program (with sinks on a pool if it declares any) plainly or under a debugger whose
// client keeps continuing every suspended thread with seeded continue types.
func runObserved(src string, debug bool, rng *rand.Rand, bps []int, events int) (*c15Outcome, string) {
	vs := scope.NewScope(scope.GlobalScope)
	logger := util.NewMemoryLogger(1000)
	erp := interpreter.NewECALRuntimeProvider("prog", nil, logger)
	erp.Cron.Stop()
	erp.Processor = engine.NewProcessor(4)
	erp.Processor.ThreadPool().TooManyCallback = func() {}
	var dbg util.ECALDebugger
	stop := make(chan struct{})
	var clientDone sync.WaitGroup
	var conts int64
	if debug {
		dbg = interpreter.NewECALDebugger(vs)
		erp.Debugger = dbg
		for _, l := range bps {
			dbg.SetBreakPoint("prog", l)
		}
		if rng.Intn(3) == 0 {
			dbg.BreakOnStart(true)
		}
		seed := rng.Int63()
		clientDone.Add(1)
		go func() { // the client: whatever is reported as suspended is continued
			defer clientDone.Done()
			crng := rand.New(rand.NewSource(seed))
			types := []string{"resume", "stepin", "stepover", "stepout"}
			for {
				select {
				case <-stop:
					return
				default:
				}
				if s, ok := dbg.Status().(map[string]interface{}); ok {
					if th, ok := s["threads"].(map[string]map[string]interface{}); ok {
						for id, t := range th {
							if running, has := t["threadRunning"].(bool); has && !running {
								dbg.HandleInput("cont " + id + " " + types[crng.Intn(len(types))])
								atomic.AddInt64(&conts, 1)
							} else if has && crng.Intn(4) == 0 {
								// an impatient client: a command for a thread which still runs (it is ignored)
								dbg.HandleInput("cont " + id + " " + types[crng.Intn(len(types))])
							}
						}
					}
				}
				if crng.Intn(20) == 0 && len(bps) > 0 {
					l := bps[crng.Intn(len(bps))]
					switch crng.Intn(3) {
					case 0:
						dbg.HandleInput(fmt.Sprintf("disablebreak prog:%d", l))
					case 1:
						dbg.HandleInput(fmt.Sprintf("break prog:%d", l))
					default:
						dbg.HandleInput(fmt.Sprintf("rmbreak prog:%d", l))
					}
				}
				time.Sleep(time.Duration(20+crng.Intn(200)) * time.Microsecond)
			}
		}()
	}
	out := &c15Outcome{}
	var fault string
	cfMarkMu.Lock()
	cfMarkLog = nil
	cfMarkMu.Unlock()
	done := make(chan struct{})
	go func() {
		defer close(done)
		defer func() {
			if r := recover(); r != nil {
				fault = fmt.Sprint(r)
			}
		}()
		ast, err := parser.ParseWithRuntime("prog", src, erp)
		if err == nil {
			err = ast.Runtime.Validate()
		}
		if err != nil {
			out.res = "parse error: " + err.Error()
			return
		}
		tid := erp.NewThreadID()
		v, err := ast.Runtime.Eval(vs, make(map[string]interface{}), tid)
		if dbg != nil {
			dbg.RecordThreadFinished(tid)
		}
		out.res = fmt.Sprintf("%v | %v", v, errType(err))
		if events > 0 {
			erp.Processor.Start()
			for e := 0; e < events; e++ {
				m := erp.Processor.NewRootMonitor(nil, nil)
				event := engine.NewEvent(fmt.Sprintf("e%d", e), []string{"c", "ev"}, map[interface{}]interface{}{"n": float64(e)})
				if events > 10 {
					erp.Processor.AddEvent(event, m) // all at once: Finish waits for them
				} else {
					erp.Processor.AddEventAndWait(event, m)
				}
			}
			erp.Processor.Finish()
		}
	}()
	// the run is stuck when it has not ended and the client has not continued anything for ten seconds (a slow
	// machine makes a debugged run slow, not stuck); after five minutes the run is given up as inconclusive
	ended, last, lastChange, begin := false, int64(-1), time.Now(), time.Now()
	for !ended {
		select {
		case <-done:
			ended = true
		case <-time.After(500 * time.Millisecond):
			if c := atomic.LoadInt64(&conts); c != last {
				last, lastChange = c, time.Now()
			}
		}
		if !ended && (time.Since(lastChange) > 10*time.Second || time.Since(begin) > 5*time.Minute) {
			break
		}
	}
	if !ended {
		tooLong := time.Since(lastChange) <= 10*time.Second
		close(stop)
		// the client itself may be stuck inside a command: neither it nor the clean-up is waited for without bound
		cleaned := make(chan struct{})
		go func() {
			clientDone.Wait()
			if dbg != nil {
				for i := 0; i < 20; i++ {
					dbg.StopThreads(0)
					time.Sleep(5 * time.Millisecond)
				}
			}
			close(cleaned)
		}()
		why := fmt.Sprintf("the run does not end although the client continued %d suspensions", atomic.LoadInt64(&conts))
		select {
		case <-cleaned:
		case <-time.After(3 * time.Second):
			why += " (a debugger command of the client does not return)"
		}
		if tooLong {
			why = "inconclusive: " + why + " and was still continuing after five minutes"
		}
		return nil, why
	}
	close(stop)
	clientDone.Wait()
	if fault != "" {
		return nil, "panic: " + fault
	}
	logs := logger.Slice()
	sort.Strings(logs) // sinks on several workers log in any order
	cfMarkMu.Lock()
	out.logs = strings.Join(logs, "\n") + fmt.Sprintf("\nmarks: %v", cfMarkLog)
	cfMarkMu.Unlock()
	vb, _ := json.Marshal(vs.ToJSONObject()) // the snapshot of the scope as the debugger shows it (safe for containers which contain themselves)
	out.vars = string(vb)
	return out, ""
}

func c15Programs(rng *rand.Rand, n int) []string {
	base := []string{
		"x := 1\nfunc g(p) {\n    v := p\n    return v + 1\n}\nfunc f(q) {\n    w := g(q)\n    return w + 1\n}\ny := f(x)\nz := y + 1\nlog(z)\n",
		"total := 0\nfor i in range(1, 5) {\n    if i % 2 == 0 {\n        continue\n    }\n    total := total + i\n    log(\"i=\", i)\n}\ntry {\n    raise(\"E1\", \"detail\")\n} except \"E1\" as e {\n    log(\"caught \", e.type)\n} finally {\n    total := total + 100\n}\ntotal\n",
		"func fib(n) {\n    if n < 2 {\n        return n\n    }\n    return fib(n - 1) + fib(n - 2)\n}\nr := fib(6)\nlog(r)\nr\n",
		"cnt := 0\nsink s1\n    kindmatch [\"c.ev\"],\n    {\n        mutex m {\n            cnt := cnt + event.state.n\n        }\n        log(\"s1 \", event.state.n)\n    }\nsink s2\n    kindmatch [\"c.*\"],\n    priority 5,\n    {\n        func h(a) {\n            return a * 2\n        }\n        mutex m {\n            cnt := cnt + h(1)\n        }\n    }\n",
		"cnt := 0\nfunc work(a) {\n    b := a + 1\n    return b\n}\nfunc deep(a) {\n    return work(work(a))\n}\nsink w1\n    kindmatch [\"c.ev\"],\n    {\n        r := 0\n        for i in range(1, 12) {\n            r := deep(r)\n        }\n        mutex m {\n            cnt := cnt + r\n        }\n    }\nsink w2\n    kindmatch [\"c.ev\"],\n    {\n        r := 0\n        for i in range(1, 12) {\n            r := work(r)\n        }\n        mutex m {\n            cnt := cnt + r\n        }\n    }\nsink w3\n    kindmatch [\"c.*\"],\n    {\n        r := deep(deep(1))\n        mutex m {\n            cnt := cnt + r\n        }\n    }\n",
		"m := {\"a\" : 1}\nm.self := m\nfunc t(q) {\n    return q.a\n}\nv := t(m)\nlog(v)\n",
		"func bad() {\n    raise(\"Boom\")\n}\nfunc outer() {\n    try {\n        bad()\n    } except {\n        log(\"handled\")\n    }\n    return 7\n}\nq := outer()\nq\n",
	}
	out := append([]string{}, base...)
	for len(out) < n {
		_, src := genCfProg(rng)
		out = append(out, src)
	}
	return out[:n]
}

// C15 is the driver of property C15.
func C15(r *ev.Run) {
	tier := r.Tier
	rng := rand.New(rand.NewSource(r.Seed))
	defer verifhook.Set(func(string, ...interface{}) {})
	r.Assume("suspended threads keep being continued by the client; breakpoints are changed by one client; the order of log lines of sinks running on different workers is not part of the outcome")

	// 1. the visits of the follow-mode programs as the real interpreter makes them: the programs of the model
	visits, err := recordVisits(c15Progs)
	if err != nil || len(visits[0]) < 10 {
		r.Inconclusive(fmt.Sprintf("cannot record the visits of the programs: %v", err))
		return
	}
	r.Set("recorded_visits", []int{len(visits[0]), len(visits[1])})
	mod1 := renderDbgMC(visits[:1], c15Lines[0])
	mod2 := renderDbgMC(visits, append(append([]int{}, c15Lines[0]...), c15Lines[1]...))

	// 2. TLC: every interleaving of one thread of the real program with a client of up to 4 / 5 commands; the variant
	//    of the pinned code is refuted (lost wake-up, breakpoints ignored while stepping over)
	cmds := pick(tier, 4, 5)
	jobs := []*MCJob{
		{Name: "code", Files: map[string]string{"MCDbgRun.tla": mod1, "run.cfg": dbgCfg("code", false, cmds, "TypeOK", "NoLostWakeup", "ContinueReleases", "ReportedIsSuspended", "BreakpointsSuspend", "StopReleasesAll")},
			Opt: tlc.Options{Module: "MCDbgRun", Config: "run.cfg", Timeout: 30 * time.Minute}},
		{Name: "code-2threads", Files: map[string]string{"MCDbgRun.tla": mod2, "run.cfg": dbgCfg("code", false, pick(tier, 2, 3), "TypeOK", "NoLostWakeup", "ContinueReleases", "ReportedIsSuspended", "BreakpointsSuspend", "StopReleasesAll")},
			Opt: tlc.Options{Module: "MCDbgRun", Config: "run.cfg", Timeout: 30 * time.Minute}},
		{Name: "found-lost", Files: map[string]string{"MCDbgRun.tla": mod1, "run.cfg": dbgCfg("found", true, 3, "VIEW", "ExportLost", "NoLostWakeup")},
			Opt: tlc.Options{Module: "MCDbgRun", Config: "run.cfg", Timeout: 30 * time.Minute, Workers: 1}},
		{Name: "found-bp", Files: map[string]string{"MCDbgRun.tla": mod1, "run.cfg": dbgCfg("found", false, 3, "BreakpointsSuspend")},
			Opt: tlc.Options{Module: "MCDbgRun", Config: "run.cfg", Timeout: 30 * time.Minute}},
		{Name: "sim", Files: map[string]string{"MCDbgRun.tla": mod2, "run.cfg": dbgCfg("code", true, 9, "Export")},
			Opt: tlc.Options{Module: "MCDbgRun", Config: "run.cfg", Timeout: 30 * time.Minute, Workers: 1,
				Args: []string{"-simulate", fmt.Sprintf("num=%d", pick(tier, 250, 2500)), "-depth", "400", "-seed", strconv.FormatInt(r.Seed, 10)}}},
		{Name: "sim-1thread", Files: map[string]string{"MCDbgRun.tla": mod1, "run.cfg": dbgCfg("code", true, 9, "Export")},
			Opt: tlc.Options{Module: "MCDbgRun", Config: "run.cfg", Timeout: 30 * time.Minute, Workers: 1,
				Args: []string{"-simulate", fmt.Sprintf("num=%d", pick(tier, 250, 2500)), "-depth", "400", "-seed", strconv.FormatInt(r.Seed+1, 10)}}},
	}
	evisits, eerr := recordVisits([]string{c15ErrProg})
	if eerr != nil || len(evisits[0]) < 8 {
		r.Inconclusive(fmt.Sprintf("cannot record the visits of the error program: %v", eerr))
		return
	}
	hasErrOut := false
	for _, v := range evisits[0] {
		hasErrOut = hasErrOut || v.K == "outerr"
	}
	if !hasErrOut {
		r.Inconclusive("the error program does not return an error through the debugger's step-out visit")
		return
	}
	modE := renderDbgMC(evisits, c15ErrLines)
	jobs = append(jobs,
		&MCJob{Name: "code-error", Files: map[string]string{"MCDbgRun.tla": modE, "run.cfg": dbgCfg("code", false, cmds, "TypeOK", "NoLostWakeup", "ContinueReleases", "ReportedIsSuspended", "BreakpointsSuspend", "StopReleasesAll")},
			Opt: tlc.Options{Module: "MCDbgRun", Config: "run.cfg", Timeout: 30 * time.Minute}},
		&MCJob{Name: "bogus-owed", Files: map[string]string{"MCDbgRun.tla": modE, "run.cfg": dbgCfg("bogus", true, 4, "VIEW", "ExportOwed", "ContinueReleases")},
			Opt: tlc.Options{Module: "MCDbgRun", Config: "run.cfg", Timeout: 10 * time.Minute, Workers: 1}},
		&MCJob{Name: "sim-error", Files: map[string]string{"MCDbgRun.tla": modE, "run.cfg": dbgCfg("code", true, 9, "Export")},
			Opt: tlc.Options{Module: "MCDbgRun", Config: "run.cfg", Timeout: 30 * time.Minute, Workers: 1,
				Args: []string{"-simulate", fmt.Sprintf("num=%d", pick(tier, 200, 2000)), "-depth", "400", "-seed", strconv.FormatInt(r.Seed+2, 10)}}})
	if !runMCParallel(r, jobs, 3) {
		return
	}
	byName := map[string]*MCJob{}
	for _, j := range jobs {
		byName[j.Name] = j
	}
	for _, n := range []string{"code", "code-2threads", "code-error"} {
		if j := byName[n]; j.Res == nil || !j.Res.OK {
			r.Drift("the model of the debugger as it is violates its invariants (" + n + "): " + j.Res.Describe() + "\n" + j.Res.Tail(15))
		}
	}
	if j := byName["found-lost"]; j.Res == nil || !strings.Contains(j.Res.Violated, "NoLostWakeup") && !strings.Contains(j.Res.Violated, "ExportLost") {
		r.Inconclusive("self-test failed: the model of the pinned debugger does not lose a wake-up: " + j.Res.Describe())
		return
	}
	if j := byName["found-bp"]; j.Res == nil || !strings.Contains(j.Res.Violated, "BreakpointsSuspend") {
		r.Inconclusive("self-test failed: the model of the pinned debugger does not pass a breakpoint: " + j.Res.Describe())
		return
	}

	// 3. follow (direction A): the wake-up losing schedule of the pinned code, then the simulated behaviours of the code's model
	refuted := 0
	report := func(kind string, prog int, steps []dbgStep, fr *followResult) {
		r.Case(fmt.Sprintf("%s/%d/%v", kind, len(steps), steps), len(steps) > 4)
		if fr.violation != "" {
			refuted++
			r.Violation(fr.sig, fr.violation+fmt.Sprintf(" (after step %d of a %s behaviour)", fr.steps, kind), map[string]interface{}{"kind": kind, "steps": steps, "at": fr.steps})
		}
	}
	lost := byName["found-lost"].Res.Printed("BEHAVIOUR")
	if len(lost) == 0 {
		r.Inconclusive("the wake-up losing behaviour was not exported")
		return
	}
	for _, js := range lost[:1] {
		steps := parseDbgBehaviour(js)
		for rep := 0; rep < pick(tier, 5, 30); rep++ {
			fr := followDebugger(c15Progs[:1], visits[:1], steps, false)
			report("lost-wakeup-schedule", 1, steps, fr)
			if fr.drift != "" {
				r.Drift("the wake-up losing schedule cannot be forced: " + fr.drift)
				break
			}
		}
	}
	// the schedule on which the pinned code consumed a continue command: a thread which passes an error upwards was marked
	// as suspended without waiting, the continue addressed to it was then eaten by its next real suspension
	if j := byName["bogus-owed"]; j.Res == nil || !strings.Contains(j.Res.Violated, "ContinueReleases") && !strings.Contains(j.Res.Violated, "ExportOwed") {
		r.Inconclusive("self-test failed: the model which marks a running thread as suspended keeps ContinueReleases: " + j.Res.Describe())
		return
	} else if bs := j.Res.Printed("BEHAVIOUR"); len(bs) > 0 {
		steps := parseDbgBehaviour(bs[0])
		for rep := 0; rep < pick(tier, 5, 30); rep++ {
			fr := followDebugger([]string{c15ErrProg}, evisits, steps, false)
			report("consumed-continue-schedule", 1, steps, fr)
			if fr.drift != "" {
				r.Drift("the continue consuming schedule cannot be forced: " + fr.drift)
				break
			}
		}
	}
	followed, drifted := 0, 0
	for _, jn := range []string{"sim", "sim-1thread", "sim-error"} {
		fprogs, fvisits := c15Progs, visits
		switch jn {
		case "sim-1thread":
			fprogs, fvisits = c15Progs[:1], visits[:1]
		case "sim-error":
			fprogs, fvisits = []string{c15ErrProg}, evisits
		}
		nprog := len(fprogs)
		for _, js := range byName[jn].Res.Printed("BEHAVIOUR") {
			steps := parseDbgBehaviour(js)
			if len(steps) < 3 {
				continue
			}
			if refuted >= 12 {
				break // enough refuted behaviours: every further one costs the bounds of the stuck calls
			}
			fr := followDebugger(fprogs, fvisits, steps, true)
			report("simulated", nprog, steps, fr)
			followed++
			if fr.drift != "" {
				drifted++
				if drifted <= 3 {
					r.Drift(fr.drift)
				}
			}
			if followed%50 == 0 {
				r.Checkpoint()
			}
		}
	}
	r.Set("behaviours_followed", followed)
	r.Set("behaviours_drifted", drifted)
	if followed < 20 && refuted < 12 {
		r.Inconclusive("too few behaviours could be followed")
		return
	}
	r.AddTraces(int64(followed - drifted))
	r.Checkpoint()

	// 4. transparency (direction B): the same program plain and under a debugger with a continuing client
	verifhook.Set(func(string, ...interface{}) {})
	bindMark()
	progs := c15Programs(rng, pick(tier, 60, 600))
	compared, stuckRuns := 0, 0
	for pi, src := range progs {
		if stuckRuns >= 3 {
			break // every stuck run leaves goroutines behind and costs its whole time bound
		}
		events := 0
		if strings.Contains(src, "sink ") {
			events = 6
			if strings.Contains(src, "sink w3") {
				events = 40 // many invocations at once on the pool: suspended threads next to threads entering functions
			}
		}
		plain, why := runObserved(src, false, rng, nil, events)
		if why != "" || plain == nil {
			continue // not a program which ends on its own: outside of what is compared
		}
		nl := strings.Count(src, "\n")
		for rep := 0; rep < pick(tier, 4, 8); rep++ {
			var bps []int
			for i, n := 0, 1+rng.Intn(4); i < n; i++ {
				bps = append(bps, 1+rng.Intn(nl))
			}
			dbgd, why := runObserved(src, true, rng, bps, events)
			r.Case(fmt.Sprintf("transparency/%d/%v/%d", pi, bps, rep), true)
			replay := map[string]interface{}{"program": src, "breakpoints": bps}
			switch {
			case strings.HasPrefix(why, "inconclusive: "):
				r.Inconclusive(why)
				return
			case why != "":
				stuckRuns++
				sig := "C15 debugged run does not end / crashes"
				if strings.HasPrefix(why, "panic") {
					sig = "C15 fault under the debugger: " + firstWords(why, 7)
				}
				r.Violation(sig, why, replay)
			case dbgd.res != plain.res:
				r.Violation("C15 result differs under the debugger", fmt.Sprintf("plain: %s, debugged: %s", headStr(plain.res, 200), headStr(dbgd.res, 200)), replay)
			case dbgd.logs != plain.logs:
				r.Violation("C15 log output differs under the debugger", fmt.Sprintf("plain: %s\ndebugged: %s", headStr(plain.logs, 300), headStr(dbgd.logs, 300)), replay)
			case dbgd.vars != plain.vars:
				r.Violation("C15 final variables differ under the debugger", fmt.Sprintf("plain: %s\ndebugged: %s", headStr(plain.vars, 300), headStr(dbgd.vars, 300)), replay)
			}
			compared++
		}
		if pi%20 == 0 {
			r.Checkpoint()
		}
	}
	r.Set("transparency_runs_compared", compared)
	r.AddTraces(int64(compared))
}
