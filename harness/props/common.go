// Package props holds the per-property drivers.
package props

import (
	"bufio"
	"encoding/json"
	"fmt"
	"os"
	"path/filepath"
	"regexp"
	"strconv"
	"strings"
	"time"

	"verif/harness/ev"
	"verif/harness/tlc"
)

// SpecDir is the directory of the TLA+ modules.
var SpecDir = "/verif/specs"

// Tier helpers.
func pick(tier string, quick, thorough int) int {
	if tier == "thorough" {
		return thorough
	}
	return quick
}

// writeNDJSON writes records as ndjson into a temp file and returns its path.
func writeNDJSON(recs []interface{}) (string, error) {
	f, err := os.CreateTemp("", "verif-trace-*.ndjson")
	if err != nil {
		return "", err
	}
	w := bufio.NewWriter(f)
	enc := json.NewEncoder(w)
	for _, r := range recs {
		if err := enc.Encode(r); err != nil {
			f.Close()
			return "", err
		}
	}
	w.Flush()
	return f.Name(), f.Close()
}

var traceResRe = regexp.MustCompile(`(?s)<<\s*"TRACE-RESULT",\s*(\d+),\s*"\[([^\]]*)\]"\s*>>`)

// validateTrace runs a linear trace specification over an ndjson file and
// returns the indices (1-based) of rejected records. The trace spec prints
// <<"TRACE-RESULT", Len(Trace), bad>> when it consumed the whole file.
func validateTrace(r *ev.Run, module, cfg string, recs []interface{}, timeout time.Duration) (bad []int, ok bool) {
	return validateTraceEnv(r, module, cfg, recs, timeout, nil)
}

// validateTraceEnv is validateTrace with additional environment (IOEnv) for the trace specification.
func validateTraceEnv(r *ev.Run, module, cfg string, recs []interface{}, timeout time.Duration, env map[string]string) (bad []int, ok bool) {
	path, err := writeNDJSON(recs)
	if err != nil {
		r.Inconclusive("cannot write trace: " + err.Error())
		return nil, false
	}
	defer os.Remove(path)
	tenv := map[string]string{"VERIF_TRACE": path}
	for k, v := range env {
		tenv[k] = v
	}
	res, err := tlc.Run(tlc.Options{SpecDir: SpecDir, Module: module, Config: cfg, Workers: 1,
		Timeout: timeout, Env: tenv})
	if err != nil {
		r.Inconclusive("tlc failed: " + err.Error())
		return nil, false
	}
	r.AddTLC(cfg+"(trace)", res.Generated, res.Distinct)
	if st := res.Printed("TRACE-STATS"); len(st) > 0 {
		var v interface{}
		if json.Unmarshal([]byte(st[len(st)-1]), &v) == nil {
			r.Set("reference_decisions_"+module, v)
		}
	}
	m := traceResRe.FindStringSubmatch(res.Output)
	if m == nil || res.ExitCode != 0 {
		r.Inconclusive(fmt.Sprintf("trace validation %s did not finish: %s\n%s", cfg, res.Describe(), res.Tail(15)))
		return nil, false
	}
	n, _ := strconv.Atoi(m[1])
	if n != len(recs) {
		r.Inconclusive(fmt.Sprintf("trace validation consumed %d of %d records", n, len(recs)))
		return nil, false
	}
	for _, f := range strings.Split(m[2], ",") {
		f = strings.TrimSpace(f)
		if f == "" {
			continue
		}
		v, _ := strconv.Atoi(f)
		bad = append(bad, v)
	}
	return bad, true
}

// runMC runs an exhaustive / simulation TLC config, returns the result and
// reports tool failures as inconclusive.
func runMC(r *ev.Run, o tlc.Options) *tlc.Result {
	if o.SpecDir == "" {
		o.SpecDir = SpecDir
	}
	res, err := tlc.Run(o)
	if err != nil {
		r.Inconclusive("tlc failed: " + err.Error())
		return nil
	}
	r.AddTLC(o.Config, res.Generated, res.Distinct)
	return res
}

// childModes are auxiliary child-process entry points (VERIF_CHILD=<mode>) of drivers which must run
// part of their workload in a process of its own (fatal errors of the Go runtime cannot be recovered).
var childModes = map[string]func(args []string){}

// ChildMain dispatches an auxiliary child mode; false if mode is not one.
func ChildMain(mode string, args []string) bool {
	if f, ok := childModes[mode]; ok {
		f(args)
		return true
	}
	return false
}

// MCJob is one TLC run over generated files.
type MCJob struct {
	Name  string
	Files map[string]string // generated module / cfg text
	Opt   tlc.Options
	Res   *tlc.Result
	Err   error
}

// runMCParallel runs TLC jobs par at a time (each with 16/par workers unless set).
func runMCParallel(r *ev.Run, jobs []*MCJob, par int) bool {
	sem := make(chan struct{}, par)
	done := make(chan *MCJob, len(jobs))
	for _, j := range jobs {
		j := j
		go func() {
			sem <- struct{}{}
			defer func() { <-sem; done <- j }()
			dir, err := tmpSpecDir(j.Files)
			if err != nil {
				j.Err = err
				return
			}
			defer os.RemoveAll(dir)
			o := j.Opt
			o.SpecDir = dir
			if o.Workers == 0 {
				o.Workers = 16 / par
				if o.Workers < 1 {
					o.Workers = 1
				}
			}
			j.Res, j.Err = tlc.Run(o)
		}()
	}
	ok := true
	for range jobs {
		j := <-done
		if j.Err != nil {
			r.Inconclusive("tlc failed (" + j.Name + "): " + j.Err.Error())
			ok = false
			continue
		}
		r.AddTLC(j.Name, j.Res.Generated, j.Res.Distinct)
	}
	return ok
}

// tmpSpecDir copies the spec directory and adds generated files; the caller removes it.
func tmpSpecDir(extra map[string]string) (string, error) {
	d, err := os.MkdirTemp("", "verif-spec-")
	if err != nil {
		return "", err
	}
	ents, err := os.ReadDir(SpecDir)
	if err != nil {
		return "", err
	}
	for _, e := range ents {
		if e.IsDir() {
			continue
		}
		b, err := os.ReadFile(filepath.Join(SpecDir, e.Name()))
		if err != nil {
			return "", err
		}
		if err := os.WriteFile(filepath.Join(d, e.Name()), b, 0o644); err != nil {
			return "", err
		}
	}
	for n, c := range extra {
		if err := os.WriteFile(filepath.Join(d, n), []byte(c), 0o644); err != nil {
			return "", err
		}
	}
	return d, nil
}
