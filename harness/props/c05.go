//go:build verif

package props

import (
	"fmt"
	"math/rand"
	"strings"
	"sync"
	"time"

	"github.com/krotik/ecal/verifhook"

	"verif/harness/ev"
)

// scExpr / scStmt: abstract programs of Scopes.tla (all fields always present).
type scExpr struct {
	T     string    `json:"t"`
	N     int       `json:"n"`
	S     string    `json:"s"`
	X     string    `json:"x"`
	A     *scExpr   `json:"a,omitempty"`
	B     *scExpr   `json:"b,omitempty"`
	F     int       `json:"f"`
	FE    *scExpr   `json:"fe,omitempty"`
	Args  []*scExpr `json:"args"`
	Items []*scExpr `json:"items"`
	Keys  []*scExpr `json:"keys"`
	Vals  []*scExpr `json:"vals"`
	C     *scExpr   `json:"c,omitempty"`
	K     *scExpr   `json:"k,omitempty"`
	Dot   bool      `json:"dot"` // render the access in dot form (no meaning for the reference)
}

type scStmt struct {
	K  string    `json:"k"`
	X  string    `json:"x"`
	E  *scExpr   `json:"e,omitempty"`
	B  []*scStmt `json:"b,omitempty"`
	C  *scExpr   `json:"c,omitempty"`
	KK *scExpr   `json:"kk,omitempty"`
}

type scParam struct {
	X      string  `json:"x"`
	HasDef bool    `json:"hasdef"`
	Def    *scExpr `json:"def,omitempty"`
}

type scFunc struct {
	Params []scParam `json:"params"`
	B      []*scStmt `json:"b,omitempty"`
}

type scProg struct {
	Body  []*scStmt `json:"body"`
	Funcs []*scFunc `json:"funcs"`
}

var scNil = &scExpr{T: "null", Args: []*scExpr{}, Items: []*scExpr{}, Keys: []*scExpr{}, Vals: []*scExpr{}}

func ex(t string) *scExpr {
	return &scExpr{T: t, A: scNil, B: scNil, FE: scNil, C: scNil, K: scNil, Args: []*scExpr{}, Items: []*scExpr{}, Keys: []*scExpr{}, Vals: []*scExpr{}}
}
func exNum(n int) *scExpr    { e := ex("num"); e.N = n; return e }
func exStr(s string) *scExpr { e := ex("str"); e.S = s; return e }
func exVar(x string) *scExpr { e := ex("var"); e.X = x; return e }
func exAdd(a, b *scExpr) *scExpr {
	e := ex("add")
	e.A, e.B = a, b
	return e
}
func exCall(f *scExpr, args ...*scExpr) *scExpr {
	e := ex("call")
	e.FE = f
	e.Args = append([]*scExpr{}, args...)
	return e
}
func exIdx(c, k *scExpr) *scExpr { e := ex("idx"); e.C, e.K = c, k; return e }
func exLen(c *scExpr) *scExpr    { e := ex("len"); e.C = c; return e }
func exDot(c *scExpr, k string) *scExpr {
	e := exIdx(c, exStr(k))
	e.Dot = true
	return e
}
func exNew(t *scExpr, args ...*scExpr) *scExpr {
	e := ex("new")
	e.C = t
	e.Args = append([]*scExpr{}, args...)
	return e
}
func exMap(kv ...interface{}) *scExpr {
	m := ex("map")
	for i := 0; i+1 < len(kv); i += 2 {
		m.Keys = append(m.Keys, exStr(kv[i].(string)))
		m.Vals = append(m.Vals, kv[i+1].(*scExpr))
	}
	return m
}
func exList(items ...*scExpr) *scExpr {
	l := ex("list")
	l.Items = append([]*scExpr{}, items...)
	return l
}

func st(k string) *scStmt { return &scStmt{K: k, E: scNil, C: scNil, KK: scNil, B: []*scStmt{}} }
func stAssign(x string, e *scExpr) *scStmt {
	s := st("assign")
	s.X, s.E = x, e
	return s
}
func stLet(x string, e *scExpr) *scStmt { s := st("let"); s.X, s.E = x, e; return s }
func stMark(e *scExpr) *scStmt          { s := st("mark"); s.E = e; return s }
func stRet(e *scExpr) *scStmt           { s := st("return"); s.E = e; return s }
func stExpr(e *scExpr) *scStmt          { s := st("expr"); s.E = e; return s }
func stBlock(b ...*scStmt) *scStmt      { s := st("block"); s.B = b; return s }
func stIfPos(e *scExpr, b ...*scStmt) *scStmt {
	s := st("ifpos")
	s.E, s.B = e, b
	return s
}
func stSet(c, k, e *scExpr) *scStmt { s := st("setidx"); s.C, s.KK, s.E = c, k, e; return s }

type scGen struct {
	rng   *rand.Rand
	prog  *scProg
	depth int
}

var scNames = []string{"a", "b", "c", "x", "y"}
var scConts = []string{"l", "m", "k"}

func (g *scGen) name() string { return scNames[g.rng.Intn(len(scNames))] }

// numExpr: an expression that is a number if the variables it reads are numbers
func (g *scGen) numExpr(d int) *scExpr {
	r := g.rng
	switch {
	case d == 0 || r.Intn(3) == 0:
		if r.Intn(2) == 0 {
			return exNum(r.Intn(6))
		}
		return exVar(g.name())
	case r.Intn(4) == 0:
		return exIdx(exVar("l"), exNum(r.Intn(3)-1))
	case r.Intn(5) == 0:
		return exLen(exVar(scConts[r.Intn(2)]))
	default:
		return exAdd(g.numExpr(d-1), g.numExpr(d-1))
	}
}

func exprReads(e *scExpr, x string) bool {
	if e == nil || e == scNil {
		return false
	}
	if e.T == "var" && e.X == x {
		return true
	}
	for _, c := range []*scExpr{e.A, e.B, e.FE, e.C, e.K} {
		if exprReads(c, x) {
			return true
		}
	}
	for _, l := range [][]*scExpr{e.Args, e.Items, e.Keys, e.Vals} {
		for _, c := range l {
			if exprReads(c, x) {
				return true
			}
		}
	}
	return false
}

func (g *scGen) newFunc(nparams int, body []*scStmt) int {
	f := &scFunc{Params: []scParam{}, B: body}
	for i := 0; i < nparams; i++ {
		p := scParam{X: []string{"p", "q", "a"}[i%3], Def: scNil}
		if i > 0 && g.rng.Intn(2) == 0 {
			p.HasDef = true
			p.Def = exNum(7 + i)
		}
		f.Params = append(f.Params, p)
	}
	g.prog.Funcs = append(g.prog.Funcs, f)
	return len(g.prog.Funcs)
}

func (g *scGen) stmts(d int, inFunc bool) []*scStmt {
	n := 2 + g.rng.Intn(4)
	var out []*scStmt
	for i := 0; i < n; i++ {
		out = append(out, g.stmt(d, inFunc)...)
	}
	return out
}

func (g *scGen) fn(nparams int, body ...*scStmt) *scExpr {
	f := ex("fn")
	f.F = g.newFunc(nparams, body)
	return f
}

// objects: templates, methods seeing `this`, init with constructor arguments, single / multiple inheritance
func (g *scGen) objects() []*scStmt {
	r := g.rng
	this := exVar("this")
	setThis := func(k string, e *scExpr) *scStmt { s := stSet(this, exStr(k), e); return s }
	base := exMap("v", exNum(r.Intn(4)), "name", exNum(50+r.Intn(5)),
		"init", g.fn(1, setThis("v", exVar("p"))),
		"get", g.fn(0, stRet(exDot(this, "v"))),
		"bump", g.fn(1, setThis("v", exAdd(exDot(this, "v"), exVar("p"))), stRet(exDot(this, "v"))))
	out := []*scStmt{stAssign("T", base),
		stAssign("o1", exNew(exVar("T"), exNum(5+r.Intn(3)))), stAssign("o2", exNew(exVar("T"), exNum(20))),
		stMark(exCall(exDot(exVar("o1"), "get"))), stMark(exCall(exDot(exVar("o2"), "bump"), exNum(1+r.Intn(3)))),
		stMark(exCall(exDot(exVar("o1"), "get"))), stMark(exDot(exVar("T"), "v")), stMark(exDot(exVar("o1"), "name"))}
	switch r.Intn(3) {
	case 0: // single inheritance: init calls the super constructor
		d := exMap("super", exList(exVar("T")), "extra", exNum(9),
			"init", g.fn(2, stExpr(exCall(exIdx(exVar("super"), exNum(0)), exVar("p"))), setThis("d", exVar("q"))),
			"sum", g.fn(0, stRet(exAdd(exDot(this, "v"), exDot(this, "d")))))
		out = append(out, stAssign("D", d), stAssign("o3", exNew(exVar("D"), exNum(2+r.Intn(3)), exNum(30))),
			stMark(exCall(exDot(exVar("o3"), "sum"))), stMark(exCall(exDot(exVar("o3"), "get"))), stMark(exDot(exVar("o3"), "name")), stMark(exDot(exVar("o3"), "extra")),
			stMark(exCall(exDot(exVar("o1"), "get"))))
	case 1: // multiple inheritance, no own init: the object has the properties of all super templates
		c := exMap("w", exNum(70), "getw", g.fn(0, stRet(exDot(this, "w"))))
		d := exMap("super", exList(exVar("T"), exVar("C")), "own", exNum(3))
		out = append(out, stAssign("C", c), stAssign("D", d), stAssign("o3", exNew(exVar("D"))),
			stMark(exCall(exDot(exVar("o3"), "getw"))), stMark(exCall(exDot(exVar("o3"), "get"))), stMark(exDot(exVar("o3"), "own")), stMark(exLen(exVar("o3"))))
	default: // init runs once with the constructor arguments; arguments beyond the parameters are ignored
		cnt := exMap("n", exNum(0), "init", g.fn(1, setThis("n", exAdd(exDot(this, "n"), exNum(1))), setThis("arg", exVar("p"))))
		out = append(out, stAssign("K", cnt), stAssign("o3", exNew(exVar("K"), exNum(4), exNum(5), exNum(6))),
			stMark(exDot(exVar("o3"), "n")), stMark(exDot(exVar("o3"), "arg")), stMark(exDot(exVar("K"), "n")))
	}
	return out
}

func (g *scGen) stmt(d int, inFunc bool) []*scStmt {
	r := g.rng
	k := r.Intn(15)
	if k == 14 {
		if d > 0 && !inFunc {
			return g.objects()
		}
		k = 3
	}
	if inFunc && (k == 6 || k == 7 || k == 8 || k == 11 || k == 13) {
		// no calls of named functions from inside function bodies: unbounded recursion is the user's problem
		k = 3
	}
	switch k {
	case 0, 1:
		return []*scStmt{stAssign(g.name(), g.numExpr(2))}
	case 2:
		// (let declares the name before its expression is evaluated: `let x := x + 1` reads the new, still
		// undefined x - the statement of C05 does not decide that order, so it is not generated)
		x := g.name()
		e := g.numExpr(1)
		for tries := 0; exprReads(e, x) && tries < 20; tries++ {
			e = g.numExpr(1)
		}
		if exprReads(e, x) {
			e = exNum(3)
		}
		return []*scStmt{stLet(x, e)}
	case 3, 4:
		return []*scStmt{stMark(g.numExpr(1))}
	case 5:
		if d > 0 {
			return []*scStmt{stBlock(g.stmts(d-1, inFunc)...)}
		}
	case 6: // define a function (closure over the current scope) and call it with 0..3 arguments
		if d > 0 {
			np := r.Intn(4)
			body := g.stmts(d-1, true)
			body = append(body, stRet(g.numExpr(1)))
			// what the call frame holds for every parameter (supplied, defaulted or missing) is shown first
			var shown []*scStmt
			for i := 0; i < np; i++ {
				shown = append(shown, stMark(exVar([]string{"p", "q", "a"}[i%3])))
			}
			body = append(shown, body...)
			f := g.newFunc(np, body)
			fn := ex("fn")
			fn.F = f
			fname := []string{"f", "g", "h"}[r.Intn(3)]
			var args []*scExpr
			for i, na := 0, r.Intn(4); i < na; i++ {
				args = append(args, g.numExpr(1))
			}
			return []*scStmt{stAssign(fname, fn), stMark(exCall(exVar(fname), args...))}
		}
	case 7: // call whatever f / g / h currently is (may be undefined: error)
		return []*scStmt{stMark(exCall(exVar([]string{"f", "g", "h"}[r.Intn(3)]), g.numExpr(1)))}
	case 8: // counter closure: returned function keeps its own state
		if d > 0 {
			inner := g.newFunc(0, []*scStmt{stAssign("n", exAdd(exVar("n"), exNum(1))), stRet(exVar("n"))})
			fnInner := ex("fn")
			fnInner.F = inner
			maker := g.newFunc(1, []*scStmt{stLet("n", exVar("p")), stRet(fnInner)})
			fnMaker := ex("fn")
			fnMaker.F = maker
			return []*scStmt{stAssign("mk", fnMaker), stAssign("c1", exCall(exVar("mk"), exNum(r.Intn(3)))), stAssign("c2", exCall(exVar("mk"), exNum(10))),
				stMark(exCall(exVar("c1"))), stMark(exCall(exVar("c1"))), stMark(exCall(exVar("c2"))), stMark(exVar("n"))}
		}
	case 9: // containers: literals, writes through bracket access, reads back
		l := ex("list")
		for i, n := 0, 1+r.Intn(3); i < n; i++ {
			l.Items = append(l.Items, exNum(r.Intn(5)))
		}
		m := ex("map")
		m.Keys = []*scExpr{exNum(1), exStr("k")}
		m.Vals = []*scExpr{exNum(r.Intn(5)), exNum(r.Intn(5))}
		return []*scStmt{stAssign("l", l), stAssign("m", m), stMark(exLen(exVar("l"))), stMark(exIdx(exVar("m"), exStr("k")))}
	case 10: // write then read: list index / number key / string key
		switch r.Intn(3) {
		case 0:
			i := exNum(r.Intn(3) - 1)
			return []*scStmt{stSet(exVar("l"), i, g.numExpr(1)), stMark(exIdx(exVar("l"), i))}
		case 1:
			k := exNum(r.Intn(3))
			return []*scStmt{stSet(exVar("m"), k, g.numExpr(1)), stMark(exIdx(exVar("m"), k)), stMark(exLen(exVar("m")))}
		default:
			k := exStr([]string{"k", "j", "z"}[r.Intn(3)])
			return []*scStmt{stSet(exVar("m"), k, g.numExpr(1)), stMark(exIdx(exVar("m"), k)), stMark(exLen(exVar("m")))}
		}
	case 11: // containers are passed by reference, numbers by value
		if d > 0 {
			f := g.newFunc(2, []*scStmt{stSet(exVar("p"), exNum(0), exNum(40+r.Intn(9))), stAssign("q", exNum(99)), stRet(exVar("q"))})
			fn := ex("fn")
			fn.F = f
			return []*scStmt{stAssign("mod", fn), stAssign("y", exNum(5)), stMark(exCall(exVar("mod"), exVar("l"), exVar("y"))), stMark(exIdx(exVar("l"), exNum(0))), stMark(exVar("y"))}
		}
	case 12: // nested containers, alias
		inner := ex("list")
		inner.Items = []*scExpr{exNum(1), exNum(2)}
		m := ex("map")
		m.Keys = []*scExpr{exStr("q")}
		m.Vals = []*scExpr{inner}
		return []*scStmt{stAssign("k", m), stAssign("al", exIdx(exVar("k"), exStr("q"))), stSet(exIdx(exVar("k"), exStr("q")), exNum(1), exNum(30+r.Intn(9))),
			stMark(exIdx(exVar("al"), exNum(1))), stMark(exLen(exVar("k")))}
	case 13: // bounded recursion
		if d > 0 && !inFunc {
			body := []*scStmt{stMark(exVar("p")), stIfPos(exVar("p"), stExpr(exCall(exVar("down"), exAdd(exVar("p"), exNum(-1))))), stRet(exVar("p"))}
			f := g.newFunc(1, body)
			fn := ex("fn")
			fn.F = f
			return []*scStmt{stAssign("down", fn), stMark(exCall(exVar("down"), exNum(1+r.Intn(3))))}
		}
	}
	return []*scStmt{stMark(exVar(g.name()))}
}

// ---- rendering -----------------------------------------------------------------------------------------

func (p *scProg) renderExpr(e *scExpr, ind string) string {
	switch e.T {
	case "num":
		return fmt.Sprint(e.N)
	case "str":
		return ecalQuote(e.S)
	case "null":
		return "null"
	case "var":
		return e.X
	case "add":
		return "(" + p.renderExpr(e.A, ind) + " + " + p.renderExpr(e.B, ind) + ")"
	case "fn":
		f := p.Funcs[e.F-1]
		var ps []string
		for _, pa := range f.Params {
			if pa.HasDef {
				ps = append(ps, pa.X+"="+p.renderExpr(pa.Def, ind))
			} else {
				ps = append(ps, pa.X)
			}
		}
		return fmt.Sprintf("func (%s) {\n%s%s}", strings.Join(ps, ", "), p.renderStmts(f.B, ind+"    "), ind)
	case "call":
		var as []string
		for _, a := range e.Args {
			as = append(as, p.renderExpr(a, ind))
		}
		return p.renderExpr(e.FE, ind) + "(" + strings.Join(as, ", ") + ")"
	case "list":
		var is []string
		for _, a := range e.Items {
			is = append(is, p.renderExpr(a, ind))
		}
		return "[" + strings.Join(is, ", ") + "]"
	case "map":
		var kv []string
		for i := range e.Keys {
			kv = append(kv, p.renderExpr(e.Keys[i], ind)+" : "+p.renderExpr(e.Vals[i], ind))
		}
		return "{" + strings.Join(kv, ", ") + "}"
	case "idx":
		if e.Dot && e.K.T == "str" {
			return p.renderExpr(e.C, ind) + "." + e.K.S
		}
		return p.renderExpr(e.C, ind) + "[" + p.renderExpr(e.K, ind) + "]"
	case "new":
		var as []string
		as = append(as, p.renderExpr(e.C, ind))
		for _, a := range e.Args {
			as = append(as, p.renderExpr(a, ind))
		}
		return "new(" + strings.Join(as, ", ") + ")"
	case "len":
		return "len(" + p.renderExpr(e.C, ind) + ")"
	}
	return "null"
}

func (p *scProg) renderStmts(b []*scStmt, ind string) string {
	var sb strings.Builder
	for _, s := range b {
		switch s.K {
		case "assign":
			fmt.Fprintf(&sb, "%s%s := %s\n", ind, s.X, p.renderExpr(s.E, ind))
		case "let":
			fmt.Fprintf(&sb, "%slet %s := %s\n", ind, s.X, p.renderExpr(s.E, ind))
		case "mark":
			fmt.Fprintf(&sb, "%sverif.smark(%s)\n", ind, p.renderExpr(s.E, ind))
		case "return":
			fmt.Fprintf(&sb, "%sreturn %s\n", ind, p.renderExpr(s.E, ind))
		case "expr":
			fmt.Fprintf(&sb, "%s%s\n", ind, p.renderExpr(s.E, ind))
		case "block":
			fmt.Fprintf(&sb, "%sif true {\n%s%s}\n", ind, p.renderStmts(s.B, ind+"    "), ind)
		case "ifpos":
			fmt.Fprintf(&sb, "%sif %s > 0 {\n%s%s}\n", ind, p.renderExpr(s.E, ind), p.renderStmts(s.B, ind+"    "), ind)
		case "setidx":
			// dot form for identifier-like string keys on simple variables, bracket form otherwise
			if s.KK.T == "str" && s.C.T == "var" && len(s.KK.S) > 0 && s.KK.S != "z" {
				fmt.Fprintf(&sb, "%s%s.%s := %s\n", ind, p.renderExpr(s.C, ind), s.KK.S, p.renderExpr(s.E, ind))
			} else {
				fmt.Fprintf(&sb, "%s%s[%s] := %s\n", ind, p.renderExpr(s.C, ind), p.renderExpr(s.KK, ind), p.renderExpr(s.E, ind))
			}
		}
	}
	return sb.String()
}

type scShown struct {
	T string `json:"t"`
	N int    `json:"n"`
	S string `json:"s"`
}

type scRec struct {
	Src   string    `json:"src"`
	Prog  *scProg   `json:"prog"`
	Log   []scShown `json:"log"`
	Res   string    `json:"res"`
	Err   string    `json:"err"`
	Fault string    `json:"fault"`
}

var scMu sync.Mutex
var scLog []scShown

func bindSMark() {
	bindVerif("smark", func(tid uint64, args []interface{}) (interface{}, error) {
		sh := scShown{T: "null"}
		if len(args) > 0 {
			switch v := args[0].(type) {
			case float64:
				sh = scShown{T: "num", N: int(v)}
			case string:
				sh = scShown{T: "str", S: v}
			case nil:
			case []interface{}:
				sh = scShown{T: "cont", N: len(v)}
			case map[interface{}]interface{}:
				sh = scShown{T: "cont", N: len(v)}
			default:
				sh = scShown{T: "fn"}
			}
		}
		scMu.Lock()
		scLog = append(scLog, sh)
		scMu.Unlock()
		return nil, nil
	})
}

func runScProg(p *scProg) *scRec {
	src := p.renderStmts(p.Body, "")
	rec := &scRec{Src: src, Prog: p, Log: []scShown{}}
	scMu.Lock()
	scLog = nil
	scMu.Unlock()
	env := newEcalEnv(1)
	var err error
	pm, hung := guarded(10*time.Second, func() { _, err = env.run(src) })
	scMu.Lock()
	rec.Log = append([]scShown{}, scLog...)
	scMu.Unlock()
	switch {
	case pm != "" || hung != "":
		rec.Fault = pm + hung
	case err != nil:
		rec.Res = "error"
		rec.Err = err.Error()
	default:
		rec.Res = "normal"
	}
	return rec
}

// C05 is the driver of property C05.
func C05(r *ev.Run) {
	tier := r.Tier
	rng := rand.New(rand.NewSource(r.Seed))
	verifhook.Set(func(string, ...interface{}) {})
	bindSMark()
	r.Assume("default parameter values are constants; add/del results are not used through old aliases (ecal.md: only the returned value should be used further); object templates (new) are checked by directed programs with literal expectations, see DESIGN.md")
	n := pick(tier, 4000, 40000)
	var trace []interface{}
	var recs []*scRec
	for k := 0; k < n; k++ {
		g := &scGen{rng: rng, prog: &scProg{Funcs: []*scFunc{}}}
		// every program starts with the containers and names defined globally
		l := ex("list")
		l.Items = []*scExpr{exNum(1), exNum(2), exNum(3)}
		m := ex("map")
		m.Keys = []*scExpr{exNum(1), exStr("k")}
		m.Vals = []*scExpr{exNum(10), exNum(20)}
		g.prog.Body = []*scStmt{stAssign("a", exNum(1)), stAssign("b", exNum(2)), stAssign("l", l), stAssign("m", m)}
		g.prog.Body = append(g.prog.Body, g.stmts(2+rng.Intn(2), false)...)
		rec := runScProg(g.prog)
		recs = append(recs, rec)
		trace = append(trace, rec)
		r.Case(rec.Src, strings.Count(rec.Src, "\n") > 6)
	}
	r.Sample(map[string]interface{}{"source": recs[0].Src, "log": recs[0].Log, "result": recs[0].Res})
	runDirected(r, "C05")
	bad, ok := validateTrace(r, "Scope_Trace", "Scope_Trace.cfg", trace, 60*time.Minute)
	if !ok {
		return
	}
	badRecs := map[int]bool{}
	for _, code := range bad {
		idx, clause := code/10, code%10
		badRecs[idx] = true
		rec := recs[idx-1]
		sig := "C05 scoping / container behaviour differs from the reference"
		if clause == 3 {
			sig = "C05 fault " + firstWords(rec.Fault, 6)
		}
		r.Violation(sig, fmt.Sprintf("clause %d of Scope_Trace: log=%v result=%s %s fault=%s\n%s", clause, rec.Log, rec.Res, rec.Err, rec.Fault, rec.Src), rec)
	}
	r.AddTraces(int64(len(recs) - len(badRecs)))
	r.Set("programs", len(recs))
}
