//go:build verif

package props

import (
	"encoding/json"
	"fmt"
	"math/rand"
	"strings"
	"sync"
	"time"

	"github.com/krotik/ecal/engine"
	"github.com/krotik/ecal/util"
	"github.com/krotik/ecal/verifhook"

	"verif/harness/ev"
	"verif/harness/sched"
	"verif/harness/tlc"
)

// sinkEvent is one event of a C11 scenario: its payload dictates what the sink invocation does.
type sinkEvent struct {
	Ev      string   `json:"ev"`
	Name    string   `json:"name"`
	Sink    string   `json:"sink"`
	ID      int      `json:"id"`
	Fail    bool     `json:"fail"`
	Type    string   `json:"type"`
	Detail  string   `json:"detail"`
	Data    string   `json:"data"`
	NErrors int      `json:"nerrors"`
	RSink   string   `json:"rsink"`
	RType   string   `json:"rtype"`
	RDetail string   `json:"rdetail"`
	RData   string   `json:"rdata"`
	REvent  string   `json:"revent"`
	Echo    []int    `json:"echo"`
	Boom    bool     `json:"-"` // sink s3: fail with a plain runtime error instead of returning a value
	Thread  string   `json:"-"`
	sched   []string `json:"-"`
}

const c11Source = `
event := "a global variable with the name the sinks use for their event"
total := 0
func helper(x) {
    let y := x * 2
    return y / 2
}
func tag(v, box=[0, 0]) {
    let old := box[0]
    box[0] := v
    box[1] := box[1] + 1
    let w := helper(v)
    return old + box[0] + box[1] - 1
}
func bump(x) {
    mutex totalmutex {
        total := total + x
    }
    return x
}
sink s1
    kindmatch ["t.a"],
    priority 0
    {
        let id := event.state.id
        for i in range(1, 4) {
            bump(i)
            helper(i)
        }
        verif.echo(event.state.id, tag(helper(bump(id))))
        if event.state.fail {
            raise(event.state.type, event.state.detail, event.state.data)
        }
    }
sink s3
    kindmatch ["t.c"],
    priority 0
    {
        let id := event.state.id
        verif.echo(event.state.id, tag(helper(id)))
        if event.state.boom {
            let l := [1]
            let z := l[5]
        }
        return id
    }
sink s2
    kindmatch ["t.b"],
    priority 0
    {
        let id := event.state.id
        verif.echo(event.state.id, tag(helper(id)))
        if event.state.fail {
            raise(event.state.type, event.state.detail, event.state.data)
        }
    }
`

var c11Gates = map[string]bool{"sink.action.enter": true, "sink.action.eventSet": true, "sink.action.return": true}

type c11Run struct {
	s    *sched.Scheduler
	env  *ecalEnv
	evs  []*sinkEvent
	mu   sync.Mutex
	byID map[int]*sinkEvent
}

func newC11Run(evs []*sinkEvent, workers int, controlled bool) (*c11Run, error) {
	cr := &c11Run{s: sched.New(controlled), evs: evs, byID: map[int]*sinkEvent{}}
	for _, e := range evs {
		e.Echo = []int{}
		e.NErrors, e.RSink, e.RType, e.RDetail, e.RData, e.REvent = 0, "", "", "", "", ""
		cr.byID[e.ID] = e
	}
	cr.s.IsGate = func(p string, a []interface{}) bool { return c11Gates[p] }
	cr.s.NameOf = func(p string, a []interface{}) string {
		if p == "pool.worker.head" {
			return fmt.Sprintf("w%v", a[0])
		}
		return ""
	}
	cr.s.Filter = func(p string) bool { return strings.HasPrefix(p, "sink.") }
	bindVerif("echo", func(tid uint64, args []interface{}) (interface{}, error) {
		if len(args) == 2 {
			a, ok1 := args[0].(float64)
			b, ok2 := args[1].(float64)
			if ok1 && ok2 {
				cr.mu.Lock()
				if e := cr.byID[int(a)]; e != nil {
					e.Echo = append(e.Echo, int(a), int(b))
				} else if e := cr.byID[int(b)]; e != nil {
					e.Echo = append(e.Echo, int(a), int(b))
				}
				cr.mu.Unlock()
			}
		}
		return nil, nil
	})
	verifhook.Set(func(string, ...interface{}) {})
	cr.env = newEcalEnv(workers)
	if _, err := cr.env.run(c11Source); err != nil {
		return nil, err
	}
	if controlled {
		verifhook.Set(cr.s.Handle)
	} // free runs: no recording at the observation points (the recorder's lock would serialise the workers)
	cr.env.erp.Processor.Start()
	proc := cr.env.erp.Processor
	for k, e := range evs {
		e := e
		name := fmt.Sprintf("c%d", k+1)
		e.Thread = name
		cr.s.Spawn(name, func() {
			kind := []string{"t", "a"}
			if e.Sink == "s2" {
				kind = []string{"t", "b"}
			} else if e.Sink == "s3" {
				kind = []string{"t", "c"}
			}
			st := map[interface{}]interface{}{"id": float64(e.ID), "fail": e.Fail, "type": e.Type, "detail": e.Detail, "data": e.Data, "boom": e.Boom}
			root := proc.NewRootMonitor(nil, nil)
			proc.AddEventAndWait(engine.NewEvent(e.Name, kind, st), root)
			errs := root.AllErrors()
			cr.mu.Lock()
			defer cr.mu.Unlock()
			for _, te := range errs {
				for sink, err := range te.ErrorMap {
					e.NErrors++
					e.RSink = sink
					e.REvent = te.Event.Name()
					if red, ok := err.(*util.RuntimeErrorWithDetail); ok {
						e.RType = red.Type.Error()
						e.RDetail = red.Detail
						e.RData = fmt.Sprint(red.Data)
					} else {
						e.RType = "?" + err.Error()
					}
				}
			}
			if e.REvent == "" {
				e.REvent = e.Name
			}
		})
	}
	return cr, nil
}

func (cr *c11Run) finish() {
	verifhook.Set(func(string, ...interface{}) {})
	cr.s.OpenAll()
	var names []string
	for _, e := range cr.evs {
		names = append(names, e.Thread)
	}
	cr.s.WaitDone(names, 5*time.Second)
	done := make(chan struct{})
	go func() { cr.env.erp.Processor.ThreadPool().SetWorkerCount(0, false); close(done) }()
	select {
	case <-done:
	case <-time.After(2 * time.Second):
	}
}

// invChooser releases the thread which currently handles a given event at a sink gate (follow mode:
// the model's steps name invocations, the worker which runs an invocation is only known at run time).
func threadOfInvocation(st *sched.Stable, evName string) string {
	for _, t := range st.Threads {
		if t.Parked != "" && c11Gates[t.Parked] && len(t.Args) > 1 && fmt.Sprint(t.Args[1]) == evName {
			return t.Name
		}
	}
	return ""
}

func randomSinkEvents(rng *rand.Rand, n int, twoSinks bool) []*sinkEvent {
	var evs []*sinkEvent
	for k := 0; k < n; k++ {
		e := &sinkEvent{Ev: "event", Name: fmt.Sprintf("E%d", k+1), Sink: "s1", ID: 100 + k, Fail: rng.Intn(2) == 0}
		if twoSinks && rng.Intn(3) == 0 {
			e.Sink = "s2"
		} else if twoSinks && c11BoomType != "" && rng.Intn(3) == 0 {
			// a sink which reports a returned value for some events and a plain runtime error for others
			e.Sink, e.Boom, e.Fail = "s3", rng.Intn(2) == 0, true
			if e.Boom {
				e.Type, e.Detail, e.Data = c11BoomType, c11BoomDetail, "<nil>"
			} else {
				e.Type, e.Detail, e.Data = "*** return ***", fmt.Sprintf("Return value: %d", e.ID), fmt.Sprint(e.ID)
			}
			evs = append(evs, e)
			continue
		}
		if e.Fail {
			e.Type = fmt.Sprintf("T%d", k+1)
			e.Detail = fmt.Sprintf("detail-%d", k+1)
			e.Data = fmt.Sprintf("data-%d", k+1)
		}
		evs = append(evs, e)
	}
	return evs
}

// what a plain runtime error of sink s3 looks like (learned from one invocation on its own)
var c11BoomType, c11BoomDetail string

func c11Calibrate() string {
	c11BoomType, c11BoomDetail = "", ""
	e := &sinkEvent{Ev: "event", Name: "CAL", Sink: "s3", ID: 1, Boom: true, Fail: true}
	cr, err := newC11Run([]*sinkEvent{e}, 1, false)
	if err != nil {
		return err.Error()
	}
	ok := cr.s.WaitDone([]string{e.Thread}, 20*time.Second)
	cr.finish()
	if !ok || e.NErrors != 1 || e.RData != "<nil>" {
		return fmt.Sprintf("calibration of sink s3: done=%v errors=%d type=%q data=%q", ok, e.NErrors, e.RType, e.RData)
	}
	c11BoomType, c11BoomDetail = e.RType, e.RDetail
	// what one invocation of s1 with id 0 adds to the shared counter
	e1 := &sinkEvent{Ev: "event", Name: "CAL1", Sink: "s1", ID: 0}
	cr1, err := newC11Run([]*sinkEvent{e1}, 1, false)
	if err != nil {
		return err.Error()
	}
	ok = cr1.s.WaitDone([]string{e1.Thread}, 20*time.Second)
	v, _, _ := cr1.env.vs.GetValue("total")
	cr1.finish()
	f, isNum := v.(float64)
	if !ok || !isNum {
		return fmt.Sprintf("calibration of the shared counter: done=%v total=%v", ok, v)
	}
	c11TotalBase = int(f)
	return ""
}

var c11TotalBase int

// c11CheckTotal compares the counter the sinks keep under an ECAL mutex with what the invocations must have added.
func c11CheckTotal(r *ev.Run, cr *c11Run, evs []*sinkEvent, mode string) {
	want := 0
	for _, e := range evs {
		if e.Sink == "s1" {
			want += c11TotalBase + e.ID
		}
	}
	v, _, _ := cr.env.vs.GetValue("total")
	if f, ok := v.(float64); !ok || int(f) != want {
		r.Violation("C11 counter kept under a mutex by overlapping invocations is wrong", fmt.Sprintf("%s run of %d invocations: total=%v, the invocations added %d (invocations entered the critical section together or lost their thread identity)", mode, len(evs), v, want),
			map[string]interface{}{"events": len(evs), "mode": mode})
	}
}

// C11 is the driver of property C11.
func C11(r *ev.Run) {
	tier := r.Tier
	rng := rand.New(rand.NewSource(r.Seed))
	r.Assume("every event is its own cascade (own root monitor), so its error report is the outcome recorded for its invocation")

	if why := c11Calibrate(); why != "" {
		r.Inconclusive(why)
		return
	}
	// 1. TLC: all interleavings of three invocations (two of one sink, one of another)
	jobs := []*MCJob{
		{Name: "SinkInvoke/local", Opt: tlc.Options{Module: "MCSinkInvoke", Config: "SinkInvoke_local.cfg", Timeout: 5 * time.Minute, Workers: 4}},
		{Name: "SinkInvoke/shared", Opt: tlc.Options{Module: "MCSinkInvoke", Config: "SinkInvoke_shared.cfg", Timeout: 5 * time.Minute, Workers: 1}},
	}
	for _, v := range [][2]string{{"shared-event", "OwnEvent"}, {"shared-data", "OwnData"}, {"shared-tid", "OneInCrit"}} {
		jobs = append(jobs, &MCJob{Name: "SinkInvoke/" + v[0], Opt: tlc.Options{Module: "MCSinkInvoke", Config: "SinkInvoke_" + v[0] + ".cfg", Timeout: 5 * time.Minute, Workers: 1}})
	}
	if !runMCParallel(r, jobs, 3) {
		return
	}
	for k, inv := range []string{"OwnEvent", "OwnData", "OneInCrit"} {
		if j := jobs[2+k]; j.Res == nil || !strings.Contains(j.Res.Violated, inv) {
			r.Inconclusive("self-test: TLC did not refute the variant " + j.Name)
			return
		}
	}
	if !jobs[0].Res.OK {
		r.Inconclusive("SinkInvoke model refuted: " + jobs[0].Res.Describe())
		return
	}
	ces := jobs[1].Res.Printed("BEHAVIOUR")
	r.Set("selftest_shared_result_variable_refuted", len(ces) > 0)
	if len(ces) == 0 || !strings.Contains(jobs[1].Res.Violated, "OwnOutcome") {
		r.Inconclusive("self-test: TLC did not refute the shared result variable: " + jobs[1].Res.Describe())
		return
	}

	var trace []interface{}
	var recs []*sinkEvent
	addRun := func(evs []*sinkEvent, schedule []string) {
		trace = append(trace, map[string]interface{}{"ev": "reset"})
		for _, e := range evs {
			e.sched = schedule
			trace = append(trace, e)
			recs = append(recs, e)
		}
		var key []string
		for _, e := range evs {
			key = append(key, fmt.Sprintf("%s/%s/%v", e.Name, e.Sink, e.Fail))
		}
		r.Case(strings.Join(key, ",")+"|"+strings.Join(schedule, ","), len(evs) > 1)
	}

	// 2. direction A: the counterexamples of the shared-variable variant followed on the real sink closure
	for _, js := range ces {
		var raw [][]string
		if json.Unmarshal([]byte(js), &raw) != nil {
			r.Inconclusive("cannot parse counterexample")
			return
		}
		evs := []*sinkEvent{
			{Ev: "event", Name: "A", Sink: "s1", ID: 1, Fail: true, Type: "TA", Detail: "dA", Data: "xA"},
			{Ev: "event", Name: "B", Sink: "s1", ID: 2},
			{Ev: "event", Name: "C", Sink: "s2", ID: 3},
		}
		cr, err := newC11Run(evs, 3, true)
		if err != nil {
			r.Inconclusive("cannot set up sinks: " + err.Error())
			return
		}
		var schedule []string
		// bring every invocation to its first gate (sink.action.enter)
		ok := true
		for {
			st, err := cr.s.WaitStable()
			if err != nil {
				r.Inconclusive("follow: " + err.Error())
				ok = false
				break
			}
			p := st.Parked()
			moved := false
			for _, n := range p {
				ts, _ := st.Get(n)
				if ts.Parked == "spawn" {
					cr.s.Release(n)
					moved = true
					break
				}
			}
			if !moved {
				break
			}
		}
		for _, stp := range raw {
			if !ok {
				break
			}
			st, err := cr.s.WaitStable()
			if err != nil {
				r.Inconclusive("follow: " + err.Error())
				ok = false
				break
			}
			if len(stp) > 1 && stp[1] == "Enter" {
				continue // entering the mutex block of the body is not a gate of its own
			}
			th := threadOfInvocation(st, stp[0])
			if th == "" {
				r.Drift(fmt.Sprintf("counterexample step %v: no goroutine handles that invocation at a sink gate", stp))
				break
			}
			schedule = append(schedule, th+":"+stp[0]+"/"+stp[1])
			cr.s.Release(th)
		}
		cr.finish()
		if !ok {
			return
		}
		addRun(evs, schedule)
		r.Add("counterexamples_followed", 1)
	}

	// 3. direction B: random gate schedules of overlapping invocations, then free runs with many workers
	nExp := pick(tier, 400, 3000)
	for k := 0; k < nExp; k++ {
		n := 2 + rng.Intn(3)
		evs := randomSinkEvents(rng, n, k%2 == 0)
		cr, err := newC11Run(evs, n, true)
		if err != nil {
			r.Inconclusive("cannot set up sinks: " + err.Error())
			return
		}
		out, err := cr.s.Run(&sched.RandomChooser{R: rng}, 5000, nil)
		cr.finish()
		if err != nil {
			r.Inconclusive("explore: " + err.Error())
			return
		}
		hung := false
		for _, e := range evs {
			if ts, ok := out.Final.Get(e.Thread); ok && !ts.Done {
				hung = true
			}
		}
		if hung {
			r.Violation("C11 invocation never finished", "a sink invocation or its waiting caller is blocked for ever", map[string]interface{}{"events": evs, "schedule": out.Schedule})
			continue
		}
		c11CheckTotal(r, cr, evs, "explored")
		addRun(evs, out.Schedule)
	}
	nFree := pick(tier, 60, 400)
	for k := 0; k < nFree; k++ {
		w := 2 + rng.Intn(15)
		evs := randomSinkEvents(rng, 100+rng.Intn(300), true)
		cr, err := newC11Run(evs, w, false)
		if err != nil {
			r.Inconclusive("cannot set up sinks: " + err.Error())
			return
		}
		var names []string
		for _, e := range evs {
			names = append(names, e.Thread)
		}
		if !cr.s.WaitDone(names, 30*time.Second) {
			cr.finish()
			r.Inconclusive("free run did not finish within the safety net")
			return
		}
		cr.finish()
		c11CheckTotal(r, cr, evs, "free")
		addRun(evs, []string{fmt.Sprintf("free/w%d", w)})
	}

	// the failures of one cascade whose monitors are created by all workers at the same time (ECAL level, judged by
	// the reference evaluation of EcalWait_Trace): none is lost, each belongs to its own event
	verifhook.Set(func(string, ...interface{}) {})
	c11StormPhase(r, pick(tier, 40, 400))

	bad, ok := validateTrace(r, "SinkInvoke_Trace", "SinkInvoke_Trace.cfg", trace, 10*time.Minute)
	if !ok {
		return
	}
	r.AddTraces(int64(len(recs) - len(bad)))
	r.Set("invocations", len(recs))
	for _, idx := range bad {
		e := trace[idx-1].(*sinkEvent)
		sig := "C11 outcome of an invocation misreported"
		if len(e.Echo) != 2 || e.Echo[0] != e.ID || e.Echo[1] != e.ID {
			sig = "C11 invocation saw foreign event/locals"
		}
		b, _ := json.Marshal(e)
		r.Violation(sig, "recorded sink invocation rejected by SinkInvoke_Trace: "+string(b), map[string]interface{}{"event": e, "schedule": e.sched})
	}
	if len(recs) > 0 {
		r.Sample(map[string]interface{}{"invocation_record": recs[0], "schedule": recs[0].sched})
	}
}
