//go:build verif

package props

import (
	"bufio"
	"encoding/json"
	"fmt"
	"os"
	"os/exec"
	"path/filepath"
	"strings"
	"sync"
	"sync/atomic"
	"time"

	"github.com/krotik/ecal/engine"
	"github.com/krotik/ecal/verifhook"

	"verif/harness/ev"
	"verif/harness/tlc"
)

type totCase struct {
	K      string   `json:"k"`
	Fn     string   `json:"fn"`
	Args   []string `json:"args"`
	Op     string   `json:"op"`
	Exp    string   `json:"exp"`
	Src    string   `json:"src"`
	Plain  string   `json:"plain"`
	InTry  string   `json:"intry"`
	InSink string   `json:"insink"`
	Alive  bool     `json:"alive"`
	Detail string   `json:"detail"`
}

var totLit = map[string]string{
	"null": "null", "true": "true", "0": "0", "1": "1", "-1": "-1", "0.5": "0.5", "-0.5": "-0.5", "huge": "1e+300",
	"estr": "\"\"", "str": "\"abc\"", "numstr": "\"1\"", "elist": "[]", "list": "[1, 2, 3]", "nlist": "[[1], [2]]",
	"emap": "{}", "map": "{\"a\" : 1}", "func": "vfunc",
	// indices
	"-4": "-4", "-3": "-3", "2": "2", "3": "3", "1.5": "1.5",
}

const totSetup = "func vfunc() {\n    return 1\n}\nvnull := null\nvtrue := true\nvlist := [1, 2, 3]\nvmap := {\"a\" : 1}\nvstr := \"abc\"\nvnum := 1\n"

func lit(v string) string {
	if l, ok := totLit[v]; ok {
		return l
	}
	return "null"
}

// render gives the ECAL text of a case (an expression or statement) and whether it is a top-level
// declaration (sinks cannot stand inside try blocks or sinks).
func (c *totCase) render() (code string, decl bool, skip bool) {
	a := func(i int) string { return lit(c.Args[i]) }
	switch c.K {
	case "builtin":
		if c.Fn == "sleep" {
			for _, x := range c.Args {
				if x == "huge" {
					return "", false, true // a very long sleep is what the user asked for
				}
			}
		}
		var as []string
		for i := range c.Args {
			as = append(as, a(i))
		}
		return fmt.Sprintf("zz := %s(%s)", c.Fn, strings.Join(as, ", ")), false, false
	case "binop":
		return fmt.Sprintf("zz := %s %s %s", a(0), c.Op, a(1)), false, false
	case "unop":
		return fmt.Sprintf("zz := %s %s", c.Op, a(0)), false, false
	case "read":
		return fmt.Sprintf("cc := %s\nzz := cc[%s]", a(0), a(1)), false, false
	case "write":
		return fmt.Sprintf("cc := %s\ncc[%s] := 1", a(0), a(1)), false, false
	case "ifguard":
		return fmt.Sprintf("gg := %s\nif gg {\n    zz := 1\n}", a(0)), false, false
	case "forguard":
		return fmt.Sprintf("gg := %s\nfor gg {\n    break\n}", a(0)), false, false
	case "forin":
		return fmt.Sprintf("gg := %s\nfor q in gg {\n    break\n}", a(0)), false, false
	case "kindmatch", "statematch", "scopematch", "priority", "suppresses":
		other := "kindmatch [\"x.y\"],\n    "
		if c.K == "kindmatch" {
			other = ""
		}
		return fmt.Sprintf("sink sattr\n    %s%s %s\n    {\n        zz := 1\n    }", other, c.K, a(0)), true, false
	case "interp":
		return fmt.Sprintf("gg := %s\nzz := \"a{{gg}}b{{len(gg)}}\"", a(0)), false, false
	case "mapitem":
		return fmt.Sprintf("zz := {%s}", a(0)), false, false
	case "mapkey": // any value as key of a map literal
		return fmt.Sprintf("kk := %s\nzz := {kk : 1, %s : 2}", a(0), a(0)), false, false
	case "mapaccesskey": // any value as key of a read and a write through brackets
		return fmt.Sprintf("kk := %s\nmm := {\"a\" : 1}\nzz := mm[kk]\nmm[kk] := 2", a(0)), false, false
	}
	return "", false, true
}

func classify(err error, pm, hung string) (string, string) {
	switch {
	case pm != "":
		return "fault", "panic: " + pm
	case hung != "":
		return "fault", "does not terminate: " + hung
	case err != nil:
		return "error", err.Error()
	}
	return "value", ""
}

var c06Caught int64

// runTotCase executes a case in the three settings.
func runTotCase(c *totCase, withSink bool) {
	c.InSink = "skipped"
	c.Alive = true
	if c.K == "eventstate" {
		runEventStateCase(c)
		return
	}
	code, decl, skip := c.render()
	c.Src = code
	if skip {
		c.Plain, c.InTry = "value", "nocatch"
		c.Exp = "any"
		return
	}
	// plain
	env := newEcalEnv(1)
	var err error
	pm, hung := guarded(3*time.Second, func() { _, err = env.run(totSetup + code) })
	c.Plain, c.Detail = classify(err, pm, hung)
	if c.Plain == "fault" {
		c.InTry = "fault"
		return
	}
	if decl {
		c.InTry = map[bool]string{true: "caught", false: "nocatch"}[c.Plain == "error"]
		return
	}
	// inside try: an error must reach the except clause
	atomic.StoreInt64(&c06Caught, 0)
	env = newEcalEnv(1)
	src := totSetup + "try {\n" + indent(code) + "\n} except e {\n    verif.caught()\n}"
	pm, hung = guarded(3*time.Second, func() { _, err = env.run(src) })
	switch cl, d := classify(err, pm, hung); {
	case cl == "fault":
		c.InTry, c.Detail = "fault", d
		return
	case atomic.LoadInt64(&c06Caught) > 0:
		c.InTry = "caught"
	default:
		c.InTry = "nocatch"
		if cl == "error" {
			c.InTry = "escaped"
			c.Detail = d
		}
	}
	if !withSink {
		return
	}
	// inside a sink on a pool worker: only that invocation fails, the processor keeps working
	env = newEcalEnv(2)
	ssrc := totSetup + "sink scase\n    kindmatch [\"c.case\"],\n    {\n" + indent(indent(code)) + "\n    }\nsink sprobe\n    kindmatch [\"c.probe\"],\n    {\n        verif.caught()\n    }\n"
	pm, hung = guarded(3*time.Second, func() { _, err = env.run(ssrc) })
	if cl, d := classify(err, pm, hung); cl != "value" {
		c.InSink, c.Detail = "fault", "declaring the sink: "+d
		return
	}
	proc := env.erp.Processor
	proc.Start()
	defer proc.ThreadPool().SetWorkerCount(0, false)
	nerr := 0
	pm, hung = guarded(5*time.Second, func() {
		root := proc.NewRootMonitor(nil, nil)
		proc.AddEventAndWait(engine.NewEvent("case", []string{"c", "case"}, map[interface{}]interface{}{}), root)
		all := root.AllErrors()
		nerr = len(all)
		// what a host does with the collected errors: read their text, encode them
		for _, te := range all {
			_ = te.Error()
			for _, e := range te.ErrorMap {
				_ = e.Error()
				json.Marshal(e)
			}
		}
	})
	if pm != "" || hung != "" {
		c.InSink, c.Detail = "fault", "sink invocation: "+pm+hung
		return
	}
	c.InSink = map[bool]string{true: "error", false: "value"}[nerr > 0]
	atomic.StoreInt64(&c06Caught, 0)
	guarded(5*time.Second, func() {
		root := proc.NewRootMonitor(nil, nil)
		proc.AddEventAndWait(engine.NewEvent("probe", []string{"c", "probe"}, map[interface{}]interface{}{}), root)
	})
	c.Alive = atomic.LoadInt64(&c06Caught) > 0
}

// an event whose state holds the value, processed by a state-indexed sink
func runEventStateCase(c *totCase) {
	c.Src = "event state {\"k\" : " + lit(c.Args[0]) + "} for sinks with statematch on k (a value, another value, null)"
	env := newEcalEnv(2)
	var err error
	decl := totSetup + "sink sstate\n    kindmatch [\"c.state\"],\n    statematch {\"k\" : 1},\n    {\n        zz := event.state.k\n    }\n" +
		"sink sstate2\n    kindmatch [\"c.*\"],\n    statematch {\"k\" : \"abc\", \"other\" : null},\n    {\n        zz := 2\n    }\n" +
		"sink sstate3\n    kindmatch [\"c.state\"],\n    statematch {\"k\" : null},\n    {\n        zz := 3\n    }\n"
	// the sinks are declared while the processor is stopped, the event is added while it runs
	if pm, hung := guarded(5*time.Second, func() { _, err = env.run(decl) }); pm != "" || hung != "" || err != nil {
		c.Plain, c.Detail = classify(err, pm, hung)
		c.InTry = map[bool]string{true: "caught", false: "fault"}[c.Plain == "error"]
		return
	}
	env.erp.Processor.Start()
	defer env.erp.Processor.ThreadPool().SetWorkerCount(0, false)
	src := "res := addEventAndWait(\"ev\", \"c.state\", {\"k\" : " + lit(c.Args[0]) + ", \"other\" : " + lit(c.Args[0]) + "})\n"
	pm, hung := guarded(5*time.Second, func() { _, err = env.run(src) })
	c.Plain, c.Detail = classify(err, pm, hung)
	c.InTry = map[bool]string{true: "caught", false: "nocatch"}[c.Plain == "error"]
	if c.Plain == "fault" {
		c.InTry = "fault"
	}
}

func indent(s string) string {
	return "    " + strings.Replace(s, "\n", "\n    ", -1)
}

// C06 is the driver of property C06.
func C06(r *ev.Run) {
	tier := r.Tier
	verifhook.Set(func(string, ...interface{}) {})
	bindVerif("caught", func(tid uint64, args []interface{}) (interface{}, error) {
		atomic.AddInt64(&c06Caught, 1)
		return nil, nil
	})
	r.Assume("a very long sleep and user-written non-termination are outside the guarantee; panics on pool workers cannot be recovered: the whole check runs in a supervised child process and its death is a violation")

	// 1. TLC writes the case universe with the outcome classes the reference fixes (direction A)
	out := filepath.Join(os.TempDir(), fmt.Sprintf("verif-c06-cases-%d.ndjson", os.Getpid()))
	defer os.Remove(out)
	res := runMC(r, tlc.Options{Module: "Total", Config: "Total.cfg", Workers: 1, Timeout: 10 * time.Minute, Env: map[string]string{"VERIF_OUT": out, "VERIF_TIER": tier}})
	if res == nil {
		return
	}
	f, err := os.Open(out)
	if err != nil {
		r.Inconclusive("TLC did not write the case universe: " + res.Tail(10))
		return
	}
	var cases []*totCase
	sc := bufio.NewScanner(f)
	sc.Buffer(make([]byte, 1<<20), 1<<20)
	for sc.Scan() {
		c := &totCase{}
		if json.Unmarshal(sc.Bytes(), c) == nil {
			cases = append(cases, c)
		}
	}
	f.Close()
	if len(cases) < 1000 {
		r.Inconclusive("case universe too small")
		return
	}
	// event states are part of the statement cases
	for _, c := range cases {
		if c.K == "eventstate" {
			c.Exp = "any"
		}
	}
	var trace []interface{}
	sinkEvery := pick(tier, 6, 1)
	for k, c := range cases {
		runTotCase(c, k%sinkEvery == 0)
		trace = append(trace, c)
		r.Case(c.K+":"+c.Fn+c.Op+":"+strings.Join(c.Args, ","), len(c.Args) > 0)
		if k%500 == 0 {
			r.Checkpoint()
		}
	}
	r.Sample(cases[len(cases)/3])
	r.Sample(cases[len(cases)/2])
	bad, ok := validateTrace(r, "Total_Trace", "Total_Trace.cfg", trace, 60*time.Minute)
	if !ok {
		return
	}
	badRecs := map[int]bool{}
	for _, code := range bad {
		idx, clause := code/10, code%10
		badRecs[idx] = true
		c := cases[idx-1]
		var sig string
		switch clause {
		case 1:
			sig = "C06 fault " + c.K + " " + c.Fn + c.Op + ": " + firstWords(c.Detail, 7)
		case 2:
			sig = "C06 outcome class differs from the reference: " + c.K + " " + c.Fn + c.Op
		case 3:
			sig = "C06 error not catchable by try/except: " + c.K + " " + c.Fn + c.Op
		default:
			sig = "C06 sink invocation behaves differently / processor dead: " + c.K + " " + c.Fn + c.Op
		}
		r.Violation(sig, fmt.Sprintf("case %s (expected %s): plain=%s intry=%s insink=%s alive=%v %s", strings.Replace(c.Src, "\n", " ; ", -1), c.Exp, c.Plain, c.InTry, c.InSink, c.Alive, c.Detail), c)
	}
	r.AddTraces(int64(len(cases) - len(badRecs)))
	r.Set("cases", len(cases))
	runC06Isolated(r)
}

// ---- programs which may end the whole process: each runs in a process of its own ----------------------------

func init() { childModes["c06iso"] = c06IsoChild; childModes["c06conc"] = c06ConcChild }

// c06ConcChild: 16 goroutines add events of kinds the processor has never seen, all at the same moment, while sinks run.
func c06ConcChild(args []string) {
	verifhook.Set(func(string, ...interface{}) {})
	proc := engine.NewProcessor(4)
	proc.ThreadPool().TooManyCallback = func() {}
	proc.AddRule(&engine.Rule{Name: "r1", KindMatch: []string{"k.*"}, ScopeMatch: []string{}, StateMatch: map[string]interface{}{"a": nil},
		Action: func(p engine.Processor, m engine.Monitor, e *engine.Event, tid uint64) error { return nil }})
	proc.Start()
	var wg sync.WaitGroup
	start := make(chan struct{})
	for w := 0; w < 16; w++ {
		w := w
		wg.Add(1)
		go func() {
			defer wg.Done()
			<-start
			for k := 0; k < 300; k++ {
				kind := []string{"k", fmt.Sprintf("new%d", (k*16+w)%1200)}
				if k%3 == 0 {
					kind = []string{fmt.Sprintf("other%d", k*16+w), "x"}
				}
				proc.AddEvent(engine.NewEvent("e", kind, map[interface{}]interface{}{"a": float64(k)}), nil)
			}
		}()
	}
	close(start)
	wg.Wait()
	proc.Finish()
	fmt.Println("ISO-RESULT value concurrent AddEvent done")
	os.Exit(0)
}

func c06IsoChild(args []string) {
	verifhook.Set(func(string, ...interface{}) {})
	env := newEcalEnv(1)
	var err error
	pm, hung := guarded(20*time.Second, func() { _, err = env.run(os.Getenv("VERIF_C06_SRC")) })
	cl, d := classify(err, pm, hung)
	fmt.Printf("ISO-RESULT %s %s\n", cl, headStr(d, 200))
	os.Exit(0)
}

var c06IsoPrograms = []struct{ name, src string }{
	{"log of a map which contains itself", "m := {\"a\" : 1}\nm.self := m\nlog(m)\n"},
	{"interpolation of a list which contains itself", "l := [1, [2]]\nl[1][0] := l\nx := \"{{l}}\"\n"},
	{"error detail holding a map which contains itself", "m := {}\nm.m := m\ntry {\n    raise(\"E\", \"d\", m)\n} except e {\n    x := \"{{e}}\"\n}\n"},
	{"comparison and length of a map which contains itself", "m := {}\nm.m := m\nx := m == m\ny := len(m)\n"},
	{"raise with a map which contains itself as detail", "m := {}\nm.m := m\ntry {\n    raise(\"E\", m)\n} except e {\n    x := 1\n}\n"},
	{"dumpenv with a value which contains itself in scope", "m := {}\nm.m := m\nx := dumpenv()\n"},
	{"built-ins on a list which contains itself", "l := [1]\nl[0] := l\na := len(l)\nb := add(l, 1)\nc := concat(l, [2])\nd := del(l, 0)\ne := type(l)\n"},
	{"arithmetic and comparison errors naming a map which contains itself", "m := {}\nm.m := m\ntry {\n    x := m + 1\n} except e {\n    y := e.detail\n}\ntry {\n    z := m > 1\n} except e {\n    y := e.error\n}\n"},
	{"event state which contains itself", "m := {}\nm.m := m\nsink s1\n    kindmatch [\"a.b\"],\n    {\n        x := 1\n    }\nr := addEvent(\"e\", \"a.b\", m)\n"},
	{"very deep nesting", "l := []\nfor i in range(1, 20000) {\n    l := [l]\n}\nlog(len(l))\n"},
}

// runC06Isolated runs the programs above; a dead child is a violation (the property: no ECAL program can crash the host).
func runC06Isolated(r *ev.Run) {
	self, err := os.Executable()
	if err != nil {
		return
	}
	for rep := 0; rep < 3; rep++ {
		cmd := exec.Command(self, "C06")
		cmd.Env = append(os.Environ(), "VERIF_CHILD=c06conc")
		b, _ := cmd.CombinedOutput()
		out := string(b)
		r.Case(fmt.Sprintf("isolated:concurrent AddEvent of new kinds/%d", rep), true)
		if strings.Contains(out, "ISO-RESULT value") {
			continue
		}
		if crashLine(out) != "" {
			r.Violation("C06 process death: events of new kinds added by several goroutines at once", "the process died: "+crashLine(out), map[string]string{"output_head": headStr(out, 1500)})
		} else {
			r.Inconclusive("concurrent AddEvent child gave no result: " + headStr(out, 300))
		}
		break
	}
	for _, p := range c06IsoPrograms {
		cmd := exec.Command(self, "C06")
		cmd.Env = append(os.Environ(), "VERIF_CHILD=c06iso", "VERIF_C06_SRC="+p.src)
		b, _ := cmd.CombinedOutput()
		out := string(b)
		r.Case("isolated:"+p.name, true)
		switch {
		case strings.Contains(out, "ISO-RESULT fault"):
			r.Violation("C06 fault: "+p.name, firstLineWith(out, "ISO-RESULT"), map[string]string{"program": p.src})
		case strings.Contains(out, "ISO-RESULT"):
		case crashLine(out) != "":
			sig := "C06 process death: " + p.name
			r.Violation(sig, "the process which ran the program died: "+crashLine(out), map[string]string{"program": p.src, "output_head": headStr(out, 1500)})
		default:
			r.Inconclusive("isolated program gave no result: " + headStr(out, 300))
		}
	}
}
