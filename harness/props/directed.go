//go:build verif

package props

import (
	"fmt"
	"strings"
	"time"

	"verif/harness/ev"
)

// Directed programs with literal expectations: situations which the program generators of C04 / C05 do not build (they
// came from seeded changes) and whose expected value follows directly from the property text. The last expression of
// the program is its result; it is compared as text.
type directedProg struct {
	prop, name, src, want string
}

var directedProgs = []directedProg{
	// C04
	{"C04", "return through finally which re-enters the function", "func f(n) {\n    try {\n        return n\n    } finally {\n        if n > 0 {\n            f(n - 1)\n        }\n    }\n}\n[f(0), f(1), f(2), f(3)]", "[0 1 2 3]"},
	{"C04", "return value survives nested calls in the returned expression's siblings", "func g(n) {\n    if n == 0 {\n        return 0\n    }\n    return n + g(n - 1)\n}\nfunc h(n) {\n    for i in range(1, 3) {\n        if i == n {\n            return [i, g(i), g(n)]\n        }\n    }\n    return []\n}\n[h(1), h(2), h(3)]", "[[1 1 1] [2 3 3] [3 6 6]]"},
	{"C04", "map loop visits keys which print the same once each", "m := {1 : \"a\", \"1\" : \"b\", true : \"c\", \"true\" : \"d\", 2 : \"e\"}\nseen := {\"a\" : 0, \"b\" : 0, \"c\" : 0, \"d\" : 0, \"e\" : 0}\nn := 0\nfor [k, v] in m {\n    seen[v] := seen[v] + 1\n    n := n + 1\n}\n[n, seen.a, seen.b, seen.c, seen.d, seen.e]", "[5 1 1 1 1 1]"},
	{"C04", "otherwise does not run when the try block is left by continue, break or return", "log := []\nfunc f() {\n    try {\n        return 1\n    } otherwise {\n        log := add(log, \"o-return\")\n    }\n}\nf()\nfor i in [1, 2] {\n    try {\n        if i == 1 {\n            continue\n        }\n        break\n    } otherwise {\n        log := add(log, \"o-loop\")\n    }\n}\ntry {\n    x := 1\n} otherwise {\n    log := add(log, \"o-plain\")\n}\nlog", "[o-plain]"},
	{"C04", "an error raised by a guard leaves the if statement: no later branch runs", "log := []\nfunc bad() {\n    raise(\"E1\", \"guard\")\n}\ntry {\n    if bad() {\n        log := add(log, \"then\")\n    } elif true {\n        log := add(log, \"elif\")\n    } else {\n        log := add(log, \"else\")\n    }\n    log := add(log, \"after\")\n} except \"E1\" {\n    log := add(log, \"handled\")\n}\ntry {\n    if false {\n        log := add(log, \"then2\")\n    } elif 1 + \"a\" > 2 {\n        log := add(log, \"elif2\")\n    } else {\n        log := add(log, \"else2\")\n    }\n} except e {\n    log := add(log, \"handled2\")\n}\nlog", "[handled handled2]"},
	// C05
	{"C05", "a value written under a number key is read back also when a string key prints the same", "m := {1 : \"a\", \"1\" : \"b\"}\nm[1] := \"c\"\nr := m[1]\nn := {\"k\" : {1 : {\"x\" : 0}, \"1\" : {\"x\" : 0}}}\nn.k[1].x := 5\n[r, n.k[1].x, len(m)]", "[c 5 2]"},
	{"C05", "this of an outer method after a method call on an object made inside it", "Outer := {\n    \"name\" : \"outer\",\n    \"run\" : func () {\n        helper := new({\n            \"name\" : \"helper\",\n            \"getName\" : func () {\n                return this.name\n            }\n        })\n        before := this.name\n        inner := helper.getName()\n        after := this.name\n        return [before, inner, after]\n    }\n}\no := new(Outer)\no.run()", "[outer helper outer]"},
	{"C05", "super of an outer constructor after constructing an inner object with its own super", "trace := []\nBaseA := {\n    \"init\" : func () {\n        trace := add(trace, \"A\")\n        this.base := \"A\"\n    }\n}\nBaseB := {\n    \"init\" : func () {\n        trace := add(trace, \"B\")\n        this.base := \"B\"\n    }\n}\nOuter := {\n    \"super\" : [BaseA],\n    \"init\" : func () {\n        this.part := new({\n            \"super\" : [BaseB],\n            \"init\" : func () {\n                super[0]()\n                this.kind := \"part\"\n            }\n        })\n        super[0]()\n        this.kind := \"outer\"\n    }\n}\no := new(Outer)\n[trace, o.base, o.kind, o.part.base, o.part.kind]", "[[B A] A outer B part]"},
	{"C05", "concat returns a new list also when only one argument has items", "a := [1, 2]\nb := concat(a, [])\nb[0] := 9\nc := concat([], a, [])\nc[1] := 8\n[a, b, c]", "[[1 2] [9 2] [1 8]]"},
	{"C05", "a let in a block is seen by a closure declared in that block which used the outer name before", "x := 1\nres := []\nif true {\n    f := func () {\n        return x\n    }\n    res := add(res, f())\n    let x := 6\n    res := add(res, f())\n    x := x + 10\n    res := add(res, f())\n}\nadd(res, x)", "[1 6 16 1]"},
	{"C05", "a let in a function is seen by closures declared earlier in an inner block which used the global name before", "x := \"global\"\nfunc outer() {\n    let getter := null\n    let setter := null\n    let first := null\n    if true {\n        getter := func () {\n            return x\n        }\n        setter := func (v) {\n            x := v\n        }\n        first := getter()\n    }\n    let x := \"local\"\n    second := getter()\n    setter(\"changed\")\n    return [first, second, x]\n}\nadd(outer(), x)", "[global local changed global]"},
	{"C05", "assignment in an inner block updates the nearest enclosing definition also after a later let in between", "x := 1\nout := []\nfunc probe() {\n    return x\n}\nif true {\n    g := func () {\n        x := x + 1\n        return x\n    }\n    out := add(out, g())\n    let x := 100\n    out := add(out, g())\n    out := add(out, x)\n}\nadd(add(out, x), probe())", "[2 101 101 2 2]"},
}

// runDirected runs the directed programs of a property.
func runDirected(r *ev.Run, prop string) {
	n := 0
	for _, d := range directedProgs {
		if d.prop != prop {
			continue
		}
		env := newEcalEnv(1)
		var res interface{}
		var err error
		pm, hung := guarded(10*time.Second, func() { res, err = env.run(d.src) })
		n++
		r.Case("directed:"+d.name, true)
		got := fmt.Sprint(res)
		switch {
		case pm != "" || hung != "":
			r.Violation(prop+" fault in directed program: "+d.name, pm+hung, map[string]string{"program": d.src})
		case err != nil:
			r.Violation(prop+" directed program: "+d.name, "error instead of "+d.want+": "+strings.SplitN(err.Error(), "\n", 2)[0], map[string]string{"program": d.src, "expected": d.want})
		case got != d.want:
			r.Violation(prop+" directed program: "+d.name, fmt.Sprintf("result %s, expected %s", got, d.want), map[string]string{"program": d.src, "expected": d.want, "got": got})
		}
	}
	r.Set("directed_programs", n)
}
