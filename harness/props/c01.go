//go:build verif

package props

import (
	"fmt"
	"hash/fnv"
	"math/rand"
	"regexp"
	"runtime"
	"sort"
	"strings"
	"sync"
	"time"

	"github.com/krotik/ecal/engine"
	"github.com/krotik/ecal/verifhook"

	"verif/harness/ev"
	"verif/harness/tlc"
)

// ---- abstract cases (JSON shaped like RuleMatch.tla's encodings) ---------------------------------

type rmValue struct {
	T  string   `json:"t"` // num | str | null | cont
	N  int      `json:"n"`
	S  string   `json:"s"`
	CS []string `json:"cs"`
	C  string   `json:"c,omitempty"` // container flavour: list | map (not used by the spec)
}

type rmMatcher struct {
	K     string   `json:"k"`
	T     string   `json:"t"` // any | num | str | re
	N     int      `json:"n"`
	S     string   `json:"s"`
	AnchS bool     `json:"anchs"`
	AnchE bool     `json:"anche"`
	Body  []string `json:"body"`
}

type rmRule struct {
	Name     string      `json:"name"`
	Kinds    [][]string  `json:"kinds"`
	HasState bool        `json:"hasstate"`
	State    []rmMatcher `json:"state"`
	Scope    [][]string  `json:"scope"`
	Suppress []string    `json:"suppress"`
}

type rmScopeDef struct {
	Path  []string `json:"path"`
	Allow bool     `json:"allow"`
}

type rmKV struct {
	K string  `json:"k"`
	V rmValue `json:"v"`
}

type rmEvent struct {
	Ev      string   `json:"ev"`
	Name    string   `json:"name"`
	Kind    []string `json:"kind"`
	State   []rmKV   `json:"state"`
	Fired   []string `json:"fired"`
	Skipped bool     `json:"skipped"`
	Trig    bool     `json:"trig"`
	Match   []string `json:"match"`
}

type rmCase struct {
	Ev      string       `json:"ev"`
	ID      string       `json:"id"`
	Rules   []rmRule     `json:"rules"`
	Scope   []rmScopeDef `json:"scope"`
	Events  []rmEvent    `json:"-"`
	Workers int          `json:"workers"`
}

func chars(s string) []string {
	out := []string{}
	for _, c := range s {
		out = append(out, string(c))
	}
	return out
}

func numVal(n int) rmValue    { return rmValue{T: "num", N: n, CS: chars(fmt.Sprint(n))} }
func strVal(s string) rmValue { return rmValue{T: "str", S: s, CS: chars(s)} }
func nullVal() rmValue        { return rmValue{T: "null", CS: chars("<nil>")} }
func contVal(c string) rmValue {
	txt := "[1]"
	if c == "map" {
		txt = "map[a:1]"
	}
	return rmValue{T: "cont", C: c, CS: chars(txt)}
}

func (v rmValue) goValue() interface{} {
	switch v.T {
	case "num":
		return float64(v.N)
	case "str":
		return v.S
	case "null":
		return nil
	}
	if v.C == "map" {
		return map[interface{}]interface{}{"a": float64(1)}
	}
	return []interface{}{float64(1)}
}

func (m rmMatcher) goValue() interface{} {
	switch m.T {
	case "any":
		return nil
	case "num":
		return float64(m.N)
	case "str":
		return m.S
	}
	src := strings.Join(m.Body, "")
	if m.AnchS {
		src = "^" + src
	}
	if m.AnchE {
		src = src + "$"
	}
	return regexp.MustCompile(src)
}

func (c *rmCase) goRules(fired func(rule string)) []*engine.Rule {
	var rs []*engine.Rule
	for _, r := range c.Rules {
		r := r
		var kinds, scope []string
		for _, k := range r.Kinds {
			kinds = append(kinds, strings.Join(k, "."))
		}
		scope = []string{}
		for _, s := range r.Scope {
			scope = append(scope, strings.Join(s, "."))
		}
		var sm map[string]interface{}
		if r.HasState {
			sm = map[string]interface{}{}
			for _, m := range r.State {
				sm[m.K] = m.goValue()
			}
		}
		rs = append(rs, &engine.Rule{Name: r.Name, KindMatch: kinds, ScopeMatch: scope, StateMatch: sm,
			Priority: 0, SuppressionList: append([]string{}, r.Suppress...),
			Action: func(p engine.Processor, m engine.Monitor, e *engine.Event, tid uint64) error {
				fired(r.Name)
				return nil
			}})
	}
	return rs
}

func (c *rmCase) goScope() *engine.RuleScope {
	defs := map[string]bool{}
	for _, d := range c.Scope {
		defs[strings.Join(d.Path, ".")] = d.Allow
	}
	return engine.NewRuleScope(defs)
}

func (e *rmEvent) goEvent() *engine.Event {
	st := map[interface{}]interface{}{}
	for _, kv := range e.State {
		st[kv.K] = kv.V.goValue()
	}
	return engine.NewEvent(e.Name, e.Kind, st)
}

// guarded runs f with a watchdog; a panic or a goroutine still running after the bound is reported.
func guarded(bound time.Duration, f func()) (panicMsg string, hungIn string) {
	done := make(chan struct{})
	var gid int64
	var mu sync.Mutex
	go func() {
		defer close(done)
		defer func() {
			if r := recover(); r != nil {
				mu.Lock()
				panicMsg = fmt.Sprint(r)
				mu.Unlock()
			}
		}()
		mu.Lock()
		gid = schedGoid()
		mu.Unlock()
		f()
	}()
	// A call which is still going after the bound is only called hung when it is blocked in the same place at two
	// samples one bound apart, or still running after ten bounds: a loaded machine must not turn slow into hung.
	sample := func() string {
		buf := make([]byte, 1<<20)
		n := runtime.Stack(buf, true)
		mu.Lock()
		id := gid
		mu.Unlock()
		for _, blk := range strings.Split(string(buf[:n]), "\n\n") {
			if strings.HasPrefix(blk, fmt.Sprintf("goroutine %d [", id)) {
				lines := strings.Split(blk, "\n")
				state := lines[0]
				if k := strings.Index(state, ","); k > 0 && strings.HasSuffix(state, "]:") {
					state = state[:k] + "]:" // without the waiting time
				}
				fn := ""
				if len(lines) > 1 {
					fn = lines[1]
				}
				return state + " " + fn
			}
		}
		return "unknown"
	}
	prev := ""
	for k := 0; k < 10; k++ {
		select {
		case <-done:
			mu.Lock()
			defer mu.Unlock()
			return panicMsg, ""
		case <-time.After(bound):
		}
		cur := sample()
		blocked := !strings.Contains(cur, "[running") && !strings.Contains(cur, "[runnable")
		if blocked && cur == prev {
			return "", cur
		}
		prev = cur
	}
	return "", prev
}

// runRMCase executes a case on the real engine and fills in the observations.
// Returns a non-empty fault description if the engine panicked or did not terminate.
func runRMCase(c *rmCase) (fault string, faultSig string) {
	verifhook.Set(func(string, ...interface{}) {})
	var mu sync.Mutex
	var cur *rmEvent
	fired := func(rule string) {
		mu.Lock()
		if cur != nil {
			cur.Fired = append(cur.Fired, rule)
		}
		mu.Unlock()
	}
	// direct index calls first (same code a worker would run): faults are attributable here
	idx := engine.NewRuleIndex()
	rules := c.goRules(fired)
	pm, hung := guarded(10*time.Second, func() {
		for _, r := range rules {
			if err := idx.AddRule(r); err != nil {
				panic("AddRule: " + err.Error())
			}
		}
	})
	if pm != "" {
		return "RuleIndex.AddRule panicked: " + pm, "C01 fault AddRule " + firstWords(pm, 6)
	}
	if hung != "" {
		return "RuleIndex.AddRule does not terminate: " + hung, "C01 hang AddRule"
	}
	for k := range c.Events {
		e := &c.Events[k]
		e.Fired = []string{}
		e.Match = []string{}
		pm, hung := guarded(10*time.Second, func() {
			ge := e.goEvent()
			e.Trig = idx.IsTriggering(ge)
			for _, r := range idx.Match(ge) {
				e.Match = append(e.Match, r.Name)
			}
		})
		if pm != "" {
			return fmt.Sprintf("RuleIndex.Match panicked on event %d: %s", k, pm), "C01 fault Match " + firstWords(pm, 6)
		}
		if hung != "" {
			return fmt.Sprintf("RuleIndex.Match does not terminate on event %d: %s", k, hung), "C01 hang Match"
		}
	}
	// the processor
	proc := engine.NewProcessor(c.Workers)
	proc.ThreadPool().TooManyCallback = func() {}
	scope := c.goScope()
	prules := c.goRules(fired)
	if h := fnv.New32a(); len(prules) >= 2 {
		// rules can be added between two runs of a processor: every second case gets the first half of its rules, runs
		// all its events (these observations are not recorded), is stopped, gets the rest of the rules and is started
		// again - what was learned about the kinds of the events in the first run must not outlive the new rules
		h.Write([]byte(c.ID))
		if h.Sum32()%2 == 0 {
			half := len(prules) / 2
			for _, r := range prules[:half] {
				if err := proc.AddRule(r); err != nil {
					return "Processor.AddRule: " + err.Error(), "C01 AddRule error"
				}
			}
			prules = prules[half:]
			proc.Start()
			for k := range c.Events {
				e := &c.Events[k]
				pm, hung := guarded(20*time.Second, func() {
					proc.AddEventAndWait(e.goEvent(), proc.NewRootMonitor(nil, scope))
				})
				if pm != "" {
					return fmt.Sprintf("AddEventAndWait panicked on event %d (first run, half of the rules): %s", k, pm), "C01 fault AddEventAndWait"
				}
				if hung != "" {
					return fmt.Sprintf("AddEventAndWait does not return on event %d (first run, half of the rules): %s", k, hung), "C01 hang AddEventAndWait"
				}
			}
			proc.Finish()
		}
	}
	for _, r := range prules {
		if err := proc.AddRule(r); err != nil {
			return "Processor.AddRule: " + err.Error(), "C01 AddRule error"
		}
	}
	proc.Start()
	defer proc.Finish()
	for k := range c.Events {
		e := &c.Events[k]
		mu.Lock()
		cur = e
		mu.Unlock()
		var mon engine.Monitor
		pm, hung := guarded(20*time.Second, func() {
			root := proc.NewRootMonitor(nil, scope)
			mon, _ = proc.AddEventAndWait(e.goEvent(), root)
		})
		if pm != "" {
			return fmt.Sprintf("AddEventAndWait panicked on event %d: %s", k, pm), "C01 fault AddEventAndWait"
		}
		if hung != "" {
			return fmt.Sprintf("AddEventAndWait does not return on event %d: %s", k, hung), "C01 hang AddEventAndWait"
		}
		e.Skipped = mon == nil
		sort.Strings(e.Fired)
	}
	mu.Lock()
	cur = nil
	mu.Unlock()
	return "", ""
}

// hasRegex tells if a case uses a regular expression matcher (not expressible in ECAL sinks).
// runRMCaseConcurrent gives a copy of a case which has been run (Match / Trig filled in): all its events are added at
// once to a processor with several workers, the fired rules are recorded per event. Nil if it cannot be run so.
func runRMCaseConcurrent(c *rmCase, workers int) (*rmCase, string) {
	cc := &rmCase{Ev: c.Ev, ID: c.ID + "-atonce", Rules: c.Rules, Scope: c.Scope, Workers: workers}
	names := map[string]int{}
	for k, e := range c.Events {
		if _, dup := names[e.Name]; dup {
			return nil, ""
		}
		names[e.Name] = k
		ce := e
		ce.Fired = []string{}
		cc.Events = append(cc.Events, ce)
	}
	var mu sync.Mutex
	proc := engine.NewProcessor(workers)
	proc.ThreadPool().TooManyCallback = func() {}
	for _, rr := range c.goRules(func(string) {}) {
		rr := rr
		name := rr.Name
		rr.Action = func(p engine.Processor, m engine.Monitor, e *engine.Event, tid uint64) error {
			mu.Lock()
			if k, ok := names[e.Name()]; ok {
				cc.Events[k].Fired = append(cc.Events[k].Fired, name)
			}
			mu.Unlock()
			return nil
		}
		if err := proc.AddRule(rr); err != nil {
			return nil, ""
		}
	}
	scope := c.goScope()
	proc.Start()
	pm, hung := guarded(60*time.Second, func() {
		mons := make([]engine.Monitor, len(cc.Events))
		for k := range cc.Events {
			mons[k], _ = proc.AddEvent(cc.Events[k].goEvent(), proc.NewRootMonitor(nil, scope))
		}
		proc.Finish()
		for k := range cc.Events {
			cc.Events[k].Skipped = mons[k] == nil
		}
	})
	if pm != "" || hung != "" {
		return nil, "events added at once: " + pm + hung
	}
	for k := range cc.Events {
		sort.Strings(cc.Events[k].Fired)
	}
	return cc, ""
}

// concurrentRMCase: a kind with n rules without state match next to rules with state match, many events of the kind
func concurrentRMCase(n int, id string) *rmCase {
	c := &rmCase{Ev: "case", ID: id, Workers: 1, Scope: []rmScopeDef{{Path: []string{}, Allow: true}}}
	for i := 0; i < n; i++ {
		c.Rules = append(c.Rules, rmRule{Name: fmt.Sprintf("plain%02d", i+1), Kinds: [][]string{{"a", "b"}}, State: []rmMatcher{}, Scope: [][]string{}, Suppress: []string{}})
	}
	for i := 1; i <= 3; i++ {
		m := rmMatcher{K: "k1", T: "num", N: i, Body: []string{}}
		c.Rules = append(c.Rules, rmRule{Name: fmt.Sprintf("state%d", i), Kinds: [][]string{{"a", "b"}}, HasState: true, State: []rmMatcher{m}, Scope: [][]string{}, Suppress: []string{}})
	}
	if strings.HasSuffix(id, "-0") { // one repetition with a wildcard rule on the level as well
		c.Rules = append(c.Rules, rmRule{Name: "wild", Kinds: [][]string{{"a", "*"}}, State: []rmMatcher{}, Scope: [][]string{}, Suppress: []string{}})
	}
	for v := 0; v < 400; v++ {
		c.Events = append(c.Events, rmEvent{Ev: "event", Name: fmt.Sprintf("E%03d", v), Kind: []string{"a", "b"}, State: []rmKV{{K: "k1", V: numVal(v % 4)}}})
	}
	return c
}

func (c *rmCase) hasRegex() bool {
	for _, r := range c.Rules {
		for _, m := range r.State {
			if m.T == "re" {
				return true
			}
		}
	}
	return false
}

// sinkSource renders the rules of a case as ECAL sinks (rt_sink.createRule path).
func (c *rmCase) sinkSource() string {
	var b strings.Builder
	for _, r := range c.Rules {
		var kinds, scopes, sup, st []string
		for _, k := range r.Kinds {
			kinds = append(kinds, ecalQuote(strings.Join(k, ".")))
		}
		for _, k := range r.Scope {
			scopes = append(scopes, ecalQuote(strings.Join(k, ".")))
		}
		for _, k := range r.Suppress {
			sup = append(sup, ecalQuote(k))
		}
		fmt.Fprintf(&b, "sink %s\n  kindmatch [%s],\n", r.Name, strings.Join(kinds, ", "))
		if len(scopes) > 0 {
			fmt.Fprintf(&b, "  scopematch [%s],\n", strings.Join(scopes, ", "))
		}
		if r.HasState {
			for _, m := range r.State {
				v := "NULL"
				switch m.T {
				case "num":
					v = fmt.Sprint(m.N)
				case "str":
					v = ecalQuote(m.S)
				}
				st = append(st, fmt.Sprintf("%s : %s", ecalQuote(m.K), v))
			}
			fmt.Fprintf(&b, "  statematch {%s},\n", strings.Join(st, ", "))
		}
		if len(sup) > 0 {
			fmt.Fprintf(&b, "  suppresses [%s],\n", strings.Join(sup, ", "))
		}
		fmt.Fprintf(&b, "  priority 0\n  {\n    verif.fired(%s)\n  }\n", ecalQuote(r.Name))
	}
	return b.String()
}

// runRMCaseSinks executes a case with the rules declared as ECAL sinks.
func runRMCaseSinks(c *rmCase) (fault string, faultSig string) {
	verifhook.Set(func(string, ...interface{}) {})
	var mu sync.Mutex
	var cur *rmEvent
	bindVerif("fired", func(tid uint64, args []interface{}) (interface{}, error) {
		mu.Lock()
		if cur != nil && len(args) > 0 {
			cur.Fired = append(cur.Fired, fmt.Sprint(args[0]))
		}
		mu.Unlock()
		return nil, nil
	})
	env := newEcalEnv(c.Workers)
	defer env.close()
	_, err, pm := env.runSafe(c.sinkSource())
	if pm != "" {
		return "declaring the sinks panicked: " + pm, "C01 fault sink declaration"
	}
	if err != nil {
		return "declaring the sinks failed: " + err.Error(), "C01 sink declaration error"
	}
	proc := env.erp.Processor
	proc.Start()
	scope := c.goScope()
	for k := range c.Events {
		e := &c.Events[k]
		e.Fired = []string{}
		mu.Lock()
		cur = e
		mu.Unlock()
		var mon engine.Monitor
		pm, hung := guarded(20*time.Second, func() {
			root := proc.NewRootMonitor(nil, scope)
			mon, _ = proc.AddEventAndWait(e.goEvent(), root)
		})
		if pm != "" {
			return fmt.Sprintf("AddEventAndWait (sinks) panicked on event %d: %s", k, pm), "C01 fault AddEventAndWait sinks"
		}
		if hung != "" {
			return fmt.Sprintf("AddEventAndWait (sinks) does not return on event %d: %s", k, hung), "C01 hang AddEventAndWait sinks"
		}
		e.Skipped = mon == nil
		sort.Strings(e.Fired)
	}
	mu.Lock()
	cur = nil
	mu.Unlock()
	return "", ""
}

func schedGoid() int64 {
	var buf [64]byte
	n := runtime.Stack(buf[:], false)
	var id int64
	fmt.Sscanf(string(buf[:n]), "goroutine %d ", &id)
	return id
}

// ---- generators ----------------------------------------------------------------------------------------

var rmSegs = []string{"a", "b", "c"}

func rndPattern(rng *rand.Rand, maxLen int) []string {
	n := 1 + rng.Intn(maxLen)
	p := make([]string, n)
	for i := range p {
		if rng.Intn(3) == 0 {
			p[i] = "*"
		} else {
			p[i] = rmSegs[rng.Intn(len(rmSegs))]
		}
	}
	return p
}

func rndKind(rng *rand.Rand, maxLen int) []string {
	n := 1 + rng.Intn(maxLen)
	p := make([]string, n)
	for i := range p {
		p[i] = rmSegs[rng.Intn(len(rmSegs))]
		// through the Go API a kind segment may itself contain the separator: it is ONE segment
		if rng.Intn(10) == 0 {
			p[i] = p[i] + "." + rmSegs[rng.Intn(len(rmSegs))]
		}
	}
	return p
}

var rmKeys = []string{"k1", "k2", "k3"}
var rmStrs = []string{"a", "ab", "abc", "b", "ba", "1"}

func rndMatcher(rng *rand.Rand, key string, containers bool) rmMatcher {
	m := rmMatcher{K: key, Body: []string{}}
	switch rng.Intn(5) {
	case 0:
		m.T = "any"
	case 1:
		m.T = "num"
		m.N = rng.Intn(3)
	case 2, 3:
		m.T = "str"
		m.S = rmStrs[rng.Intn(len(rmStrs))]
	default:
		m.T = "re"
		m.AnchS = rng.Intn(2) == 0
		m.AnchE = rng.Intn(2) == 0
		n := rng.Intn(3)
		for i := 0; i < n; i++ {
			m.Body = append(m.Body, []string{"a", "b", ".", "1"}[rng.Intn(4)])
		}
	}
	return m
}

func rndValue(rng *rand.Rand, containers bool) rmValue {
	k := rng.Intn(10)
	switch {
	case k < 3:
		return numVal(rng.Intn(3))
	case k < 7:
		return strVal(rmStrs[rng.Intn(len(rmStrs))])
	case k < 8:
		return nullVal()
	}
	if containers {
		if rng.Intn(2) == 0 {
			return contVal("list")
		}
		return contVal("map")
	}
	return strVal("a")
}

var rmScopePaths = [][]string{{"s"}, {"s", "t"}, {"u"}, {"s", "t", "v"}}

func rndCase(rng *rand.Rand, id string, maxRules, maxKindLen, maxEvents int, containers bool) *rmCase {
	c := &rmCase{Ev: "case", ID: id, Workers: []int{1, 2, 4}[rng.Intn(3)], Scope: []rmScopeDef{}}
	nr := 1 + rng.Intn(maxRules)
	// a few kinds get many rules so that state leaves fill up
	for i := 0; i < nr; i++ {
		r := rmRule{Name: fmt.Sprintf("r%d", i+1), State: []rmMatcher{}, Scope: [][]string{}, Suppress: []string{}}
		np := 1 + rng.Intn(2)
		for j := 0; j < np; j++ {
			r.Kinds = append(r.Kinds, rndPattern(rng, maxKindLen))
		}
		if rng.Intn(2) == 0 {
			r.HasState = true
			for _, k := range rmKeys {
				if rng.Intn(3) == 0 {
					r.State = append(r.State, rndMatcher(rng, k, containers))
				}
			}
		}
		if rng.Intn(3) == 0 {
			r.Scope = append(r.Scope, rmScopePaths[rng.Intn(len(rmScopePaths))])
		}
		c.Rules = append(c.Rules, r)
	}
	for i := range c.Rules {
		if rng.Intn(4) == 0 {
			o := rng.Intn(nr)
			if o != i {
				c.Rules[i].Suppress = append(c.Rules[i].Suppress, c.Rules[o].Name)
			}
		}
	}
	// scope of the cascade
	if rng.Intn(3) != 0 {
		c.Scope = append(c.Scope, rmScopeDef{Path: []string{}, Allow: rng.Intn(4) != 0})
	}
	for _, p := range rmScopePaths {
		if rng.Intn(3) == 0 {
			c.Scope = append(c.Scope, rmScopeDef{Path: p, Allow: rng.Intn(2) == 0})
		}
	}
	ne := 1 + rng.Intn(maxEvents)
	names := []string{"E1", "E2"}
	for i := 0; i < ne; i++ {
		e := rmEvent{Ev: "event", Name: names[rng.Intn(len(names))], Kind: rndKind(rng, maxKindLen), State: []rmKV{}}
		for _, k := range rmKeys {
			if rng.Intn(2) == 0 {
				e.State = append(e.State, rmKV{K: k, V: rndValue(rng, containers)})
			}
		}
		c.Events = append(c.Events, e)
	}
	return c
}

// wideLeafCase puts n state rules on one kind; event matches the rules selected by key k1.
func wideLeafCase(n int, id string) *rmCase {
	c := &rmCase{Ev: "case", ID: id, Workers: 1, Scope: []rmScopeDef{{Path: []string{}, Allow: true}}}
	for i := 0; i < n; i++ {
		m := rmMatcher{K: "k1", T: "num", N: i % 3, Body: []string{}}
		c.Rules = append(c.Rules, rmRule{Name: fmt.Sprintf("r%03d", i+1), Kinds: [][]string{{"a", "b"}}, HasState: true,
			State: []rmMatcher{m}, Scope: [][]string{}, Suppress: []string{}})
	}
	for v := 0; v < 3; v++ {
		c.Events = append(c.Events, rmEvent{Ev: "event", Name: fmt.Sprintf("W%d", v), Kind: []string{"a", "b"},
			State: []rmKV{{K: "k1", V: numVal(v)}}})
	}
	return c
}

// directed cases: the counterexample classes of the implementation-level model (RuleIndex.tla)
func directedRMCases() []*rmCase {
	all := []rmScopeDef{{Path: []string{}, Allow: true}}
	mk := func(id string, rules []rmRule, evs []rmEvent) *rmCase {
		for i := range rules {
			if rules[i].State == nil {
				rules[i].State = []rmMatcher{}
			}
			if rules[i].Scope == nil {
				rules[i].Scope = [][]string{}
			}
			if rules[i].Suppress == nil {
				rules[i].Suppress = []string{}
			}
		}
		for i := range evs {
			evs[i].Ev = "event"
			if evs[i].State == nil {
				evs[i].State = []rmKV{}
			}
		}
		return &rmCase{Ev: "case", ID: id, Workers: 1, Scope: all, Rules: rules, Events: evs}
	}
	return []*rmCase{
		mk("two-patterns-one-event", []rmRule{{Name: "r1", Kinds: [][]string{{"a", "*"}, {"*", "b"}}}},
			[]rmEvent{{Name: "E1", Kind: []string{"a", "b"}}}),
		mk("same-name-other-kind", []rmRule{{Name: "r1", Kinds: [][]string{{"a", "c"}}}},
			[]rmEvent{{Name: "E2", Kind: []string{"b", "b"}}, {Name: "E2", Kind: []string{"a", "c"}}}),
		mk("dotted-segment-vs-two-segments", []rmRule{{Name: "r1", Kinds: [][]string{{"a", "*", "c"}}}},
			[]rmEvent{{Name: "E1", Kind: []string{"a", "b.c"}}, {Name: "E2", Kind: []string{"a", "b", "c"}}}),
		mk("duplicate-pattern", []rmRule{{Name: "r1", Kinds: [][]string{{"a"}, {"a"}}}},
			[]rmEvent{{Name: "E1", Kind: []string{"a"}}}),
		mk("container-event-value", []rmRule{{Name: "r1", Kinds: [][]string{{"a"}}, HasState: true, State: []rmMatcher{{K: "k1", T: "num", N: 1, Body: []string{}}}}},
			[]rmEvent{{Name: "E1", Kind: []string{"a"}, State: []rmKV{{K: "k1", V: contVal("list")}}}, {Name: "E3", Kind: []string{"a"}, State: []rmKV{{K: "k1", V: contVal("map")}}}}),
	}
}

// C01 is the driver of property C01.
func C01(r *ev.Run) {
	tier := r.Tier
	rng := rand.New(rand.NewSource(r.Seed))
	r.Assume("regular expressions are drawn from a structurally defined subset (anchors, literals, '.'); container-valued rule values are not generated (no matching meaning defined), container-valued EVENT values are")
	r.Assume("events of one history are added one after the other with wait semantics, so action invocations are attributed to the event in flight")

	// 1. TLC: implementation-level model of the index and the triggering cache against the reference
	if !c01Model(r) {
		return
	}

	// 2. cases on the real engine, recorded and validated by TLC against the reference definition
	var cases []*rmCase
	cases = append(cases, directedRMCases()...)
	for _, n := range []int{63, 64, 65, 130} {
		cases = append(cases, wideLeafCase(n, fmt.Sprintf("wide-leaf-%d", n)))
	}
	nSmall := pick(tier, 6000, 40000)
	for k := 0; k < nSmall; k++ {
		cases = append(cases, rndCase(rng, fmt.Sprintf("small%d", k), 3, 2, 4, k%4 == 0))
	}
	nBig := pick(tier, 300, 2500)
	for k := 0; k < nBig; k++ {
		cases = append(cases, rndCase(rng, fmt.Sprintf("big%d", k), 40, 3, 30, k%4 == 0))
	}
	for rep := 0; rep < pick(tier, 3, 20); rep++ {
		for _, n := range []int{1, 2, 3, 5, 6, 7, 9} {
			cases = append(cases, concurrentRMCase(n, fmt.Sprintf("conc%d-%d", n, rep)))
		}
	}
	var trace []interface{}
	var sinkCases []*rmCase
	evIndex := map[int][2]int{}
	for ci := 0; ci < len(cases); ci++ {
		c := cases[ci]
		var fault, sig string
		if strings.HasSuffix(c.ID, "-atonce") {
			// already run (below)
		} else {
			fault, sig = runRMCase(c)
			if fault == "" && (strings.HasPrefix(c.ID, "conc") || (strings.HasPrefix(c.ID, "big") && ci%5 == 0)) {
				// the same events all at once on 8 workers: the rules fired per event are judged like the others
				if cc, cf := runRMCaseConcurrent(c, 8); cf != "" {
					r.Violation("C01 fault with events added at once", cf+" (case "+c.ID+")", c.replay())
				} else if cc != nil {
					cases = append(cases, cc)
				}
			}
		}
		r.Case(c.ID, len(c.Rules) > 1 || len(c.Events) > 1)
		if fault != "" {
			r.Violation(sig, fault+" (case "+c.ID+")", c.replay())
			if strings.Contains(sig, "hang") {
				r.Logf("a goroutine of the engine is spinning; remaining cases are not run")
				break
			}
			continue
		}
		trace = append(trace, c)
		for k := range c.Events {
			trace = append(trace, c.Events[k])
			evIndex[len(trace)] = [2]int{ci, k}
			if len(c.Events[k].Fired) > 0 {
				r.Add("events_with_fired_rules", 1)
			}
			if c.Events[k].Skipped {
				r.Add("events_skipped", 1)
			}
		}
		// the same case through ECAL sinks (interpreter/rt_sink.go createRule)
		if !c.hasRegex() && len(c.Rules) <= 45 && ci%3 == 0 {
			sc := c.cloneForSinks()
			fault, sig := runRMCaseSinks(sc)
			if fault != "" {
				r.Violation(sig, fault+" (case "+c.ID+")", sc.replay())
			} else {
				sinkCases = append(sinkCases, sc)
				trace = append(trace, sc)
				for k := range sc.Events {
					trace = append(trace, sc.Events[k])
					evIndex[len(trace)] = [2]int{-len(sinkCases), k}
				}
			}
		}
		if ci == 0 || ci == len(cases)/2 {
			r.Sample(c.replay())
		}
	}
	bad, ok := validateTrace(r, "RuleMatch_Trace", "RuleMatch_Trace.cfg", trace, 30*time.Minute)
	if !ok {
		return
	}
	r.AddTraces(int64(len(trace) - len(bad)))
	r.Set("cases", len(cases))
	r.Set("events", len(evIndex))
	for _, idx := range bad {
		ce := evIndex[idx]
		var c *rmCase
		if ce[0] < 0 {
			c = sinkCases[-ce[0]-1]
		} else {
			c = cases[ce[0]]
		}
		e := c.Events[ce[1]]
		r.Violation(rmSignature(c, ce[1]), fmt.Sprintf("case %s event %d (%s kind %v): fired=%v skipped=%v trig=%v match=%v is not what the reference definition allows",
			c.ID, ce[1], e.Name, e.Kind, e.Fired, e.Skipped, e.Trig, e.Match), c.replay())
	}
}

// cloneForSinks copies a case for the run through ECAL sinks; the direct index observations (trig,
// match) are kept from the Go API run.
func (c *rmCase) cloneForSinks() *rmCase {
	n := *c
	n.ID = c.ID + "/sinks"
	n.Events = append([]rmEvent(nil), c.Events...)
	return &n
}

func (c *rmCase) replay() interface{} {
	return map[string]interface{}{"id": c.ID, "workers": c.Workers, "rules": c.Rules, "scope": c.Scope, "events": c.Events}
}

// rmSignature classifies a mismatch by its observable symptom.
func rmSignature(c *rmCase, k int) string {
	e := c.Events[k]
	dup := false
	seen := map[string]bool{}
	for _, f := range e.Fired {
		if seen[f] {
			dup = true
		}
		seen[f] = true
	}
	switch {
	case dup:
		return "C01 rule fired more than once for one event"
	case e.Skipped && e.Trig:
		return "C01 triggering event skipped"
	default:
		return "C01 fired set differs from the reference"
	}
}

// c01Model model-checks RuleIndex.tla (index tree + cache) against RuleMatch for small universes.
func c01Model(r *ev.Run) bool {
	jobs := []*MCJob{
		{Name: "RuleIndex/code", Opt: tlc.Options{Module: "MCRuleIndex", Config: "RuleIndex_code.cfg", Timeout: 20 * time.Minute, Workers: 8}},
		{Name: "RuleIndex/found", Opt: tlc.Options{Module: "MCRuleIndex", Config: "RuleIndex_found.cfg", Timeout: 10 * time.Minute, Workers: 4}},
		{Name: "RuleIndex/stale-cache", Opt: tlc.Options{Module: "MCRuleIndex", Config: "RuleIndex_stale.cfg", Timeout: 10 * time.Minute, Workers: 4}},
	}
	if !runMCParallel(r, jobs, 3) {
		return false
	}
	if jobs[2].Res.Violated == "" {
		r.Inconclusive("self-test: TLC did not refute the cache which outlives added rules: " + jobs[2].Res.Describe())
		return false
	}
	if !jobs[0].Res.OK {
		r.Inconclusive("RuleIndex model (code) refuted by TLC: " + jobs[0].Res.Describe() + "\n" + jobs[0].Res.Tail(30))
		return false
	}
	if jobs[1].Res.Violated == "" {
		r.Inconclusive("self-test: TLC did not refute the index/cache design as found: " + jobs[1].Res.Describe())
		return false
	}
	r.Set("selftest_found_design_refuted", jobs[1].Res.Violated)
	return true
}
