//go:build verif

package props

import (
	"encoding/json"
	"fmt"
	"math/rand"
	"strings"
	"sync"
	"time"

	"github.com/krotik/ecal/engine"
	"github.com/krotik/ecal/verifhook"

	"verif/harness/ev"
	"verif/harness/sched"
	"verif/harness/tlc"
)

// mxBlock is a mutex block of a generated thread program.
type mxBlock struct {
	Name string     `json:"n"`
	Exit string     `json:"exit"` // normal | error | return | break | continue
	Kids []*mxBlock `json:"kids,omitempty"`
}

var mxNames = []string{"a", "b", "c"}

// randomBlocks builds a sequence of blocks; nested blocks only use the same name or names later in
// the global order (so that threads cannot deadlock by their own lock order).
func randomBlocks(rng *rand.Rand, minName, depth, maxSeq int) []*mxBlock {
	var bs []*mxBlock
	n := 1 + rng.Intn(maxSeq)
	for i := 0; i < n; i++ {
		ni := minName + rng.Intn(len(mxNames)-minName)
		b := &mxBlock{Name: mxNames[ni], Exit: []string{"normal", "normal", "error", "return", "break", "continue"}[rng.Intn(6)]}
		if depth > 1 && rng.Intn(2) == 0 {
			b.Kids = randomBlocks(rng, ni, depth-1, 2)
		}
		bs = append(bs, b)
	}
	return bs
}

func countBlocks(bs []*mxBlock, cnt map[string]int) {
	for _, b := range bs {
		cnt[b.Name]++
		countBlocks(b.Kids, cnt)
	}
}

// renderBlocks renders blocks to ECAL source. Functions needed for "return" exits are collected in funcs.
func renderBlocks(bs []*mxBlock, prefix string, ind string, funcs *[]string, ctr *int) string {
	var b strings.Builder
	for _, blk := range bs {
		var body strings.Builder
		fmt.Fprintf(&body, "%s    verif.menter(%q)\n", ind, blk.Name)
		fmt.Fprintf(&body, "%s    cnt%s := cnt%s + 1\n", ind, blk.Name, blk.Name)
		body.WriteString(renderBlocks(blk.Kids, prefix, ind+"    ", funcs, ctr))
		fmt.Fprintf(&body, "%s    verif.mleaving(%q)\n", ind, blk.Name)
		switch blk.Exit {
		case "error":
			fmt.Fprintf(&body, "%s    raise(\"E\", \"x\")\n", ind)
		case "return":
			fmt.Fprintf(&body, "%s    return 1\n", ind)
		case "break":
			fmt.Fprintf(&body, "%s    break\n", ind)
		case "continue":
			fmt.Fprintf(&body, "%s    continue\n", ind)
		}
		mx := fmt.Sprintf("%smutex %s {\n%s%s}\n", ind, blk.Name, body.String(), ind)
		switch blk.Exit {
		case "normal":
			b.WriteString(mx)
		case "error":
			fmt.Fprintf(&b, "%stry {\n%s%s} except {\n%s}\n", ind, mx, ind, ind)
		case "return":
			*ctr++
			fn := fmt.Sprintf("%sf%d", prefix, *ctr)
			*funcs = append(*funcs, fmt.Sprintf("func %s() {\n%s}\n", fn, mx))
			fmt.Fprintf(&b, "%s%s()\n", ind, fn)
		case "break", "continue":
			*ctr++
			fmt.Fprintf(&b, "%sfor %si%d in [1] {\n%s%s}\n", ind, prefix, *ctr, mx, ind)
		}
	}
	return b.String()
}

var c12Gates = map[string]bool{"mutex.ownerRead": true, "mutex.locked": true, "mutex.ownerSet": true,
	"mutex.ownerCleared": true, "mutex.unlocked": true, "mutex.reentered": true, "verif.menter": true, "verif.mleaving": true}

type c12Result struct {
	Hung     bool
	P        []interface{}
	Schedule []string
	Err      error
	Programs []string
}

// runMutexScenario runs thread programs on direct evaluation goroutines (sinks=false) or as sinks on
// pool workers (sinks=true).
func runMutexScenario(progs [][]*mxBlock, sinks bool, controlled bool, ch sched.Chooser) *c12Result {
	res := &c12Result{}
	s := sched.New(controlled)
	s.IsGate = func(p string, a []interface{}) bool { return c12Gates[p] }
	s.NameOf = func(p string, a []interface{}) string {
		if p == "pool.worker.head" {
			return fmt.Sprintf("w%v", a[0])
		}
		return ""
	}
	s.Filter = func(p string) bool { return strings.HasPrefix(p, "verif.") || strings.HasPrefix(p, "mutex.") }
	bindVerif("menter", func(tid uint64, args []interface{}) (interface{}, error) {
		s.Gate("verif.menter", int(tid), fmt.Sprint(args[0]))
		return nil, nil
	})
	bindVerif("mleaving", func(tid uint64, args []interface{}) (interface{}, error) {
		s.Gate("verif.mleaving", int(tid), fmt.Sprint(args[0]))
		return nil, nil
	})
	verifhook.Set(func(string, ...interface{}) {})
	env := newEcalEnv(len(progs))
	exp := map[string]int{}
	var setup strings.Builder
	for _, n := range mxNames {
		fmt.Fprintf(&setup, "cnt%s := 0\n", n)
	}
	var bodies []string
	for k, bs := range progs {
		countBlocks(bs, exp)
		var funcs []string
		ctr := 0
		body := renderBlocks(bs, fmt.Sprintf("t%d", k+1), "", &funcs, &ctr)
		if sinks {
			fmt.Fprintf(&setup, "%ssink s%d\n  kindmatch [\"m.t%d\"],\n  priority 0\n  {\n%s  }\n", strings.Join(funcs, ""), k+1, k+1, body)
		} else {
			setup.WriteString(strings.Join(funcs, ""))
		}
		bodies = append(bodies, body)
		res.Programs = append(res.Programs, strings.Join(funcs, "")+body)
	}
	if _, err := env.run(setup.String()); err != nil {
		res.Err = fmt.Errorf("setup failed: %v\n%s", err, setup.String())
		return res
	}
	var asts []func(tid uint64) error
	if !sinks {
		for _, body := range bodies {
			ast, err := env.parse(body)
			if err != nil {
				res.Err = fmt.Errorf("thread program does not parse: %v\n%s", err, body)
				return res
			}
			asts = append(asts, func(tid uint64) error {
				_, err := ast.Runtime.Eval(env.vs, make(map[string]interface{}), tid)
				return err
			})
		}
	}
	verifhook.Set(s.Handle)
	if sinks {
		env.erp.Processor.Start()
	}
	var names []string
	var emu sync.Mutex
	var evalErrs []string
	for k := range progs {
		k := k
		name := fmt.Sprintf("t%d", k+1)
		names = append(names, name)
		s.Spawn(name, func() {
			if sinks {
				proc := env.erp.Processor
				root := proc.NewRootMonitor(nil, nil)
				proc.AddEventAndWait(engine.NewEvent(fmt.Sprintf("e%d", k+1), []string{"m", fmt.Sprintf("t%d", k+1)}, map[interface{}]interface{}{}), root)
				for _, te := range root.AllErrors() {
					emu.Lock()
					evalErrs = append(evalErrs, te.Error())
					emu.Unlock()
				}
			} else {
				if err := asts[k](env.erp.NewThreadID()); err != nil {
					emu.Lock()
					evalErrs = append(evalErrs, err.Error())
					emu.Unlock()
				}
			}
		})
	}
	hung := false
	if controlled {
		out, err := s.Run(ch, 20000, nil)
		res.Err = err
		if out != nil {
			res.Schedule = out.Schedule
			if out.Final != nil {
				for _, n := range names {
					if ts, ok := out.Final.Get(n); ok && !ts.Done {
						hung = true
					}
				}
			}
		}
	} else {
		if !s.WaitDone(names, 20*time.Second) {
			// permanently blocked on a mutex? decide from the goroutine states
			st, err := s.WaitStable()
			if err != nil {
				res.Err = err
			} else {
				for _, n := range names {
					if ts, ok := st.Get(n); ok && !ts.Done {
						hung = true
					}
				}
			}
		}
	}
	// property-level events
	for _, e := range s.Events() {
		switch e.Point {
		case "verif.menter":
			res.P = append(res.P, map[string]interface{}{"ev": "enter", "t": e.Args[0], "n": e.Args[1], "cnt": 0, "exp": 0, "hung": false})
		case "verif.mleaving":
			res.P = append(res.P, map[string]interface{}{"ev": "leaving", "t": e.Args[0], "n": e.Args[1], "cnt": 0, "exp": 0, "hung": false})
		}
	}
	verifhook.Set(func(string, ...interface{}) {})
	s.OpenAll()
	if !hung {
		s.WaitDone(names, 2*time.Second)
	}
	res.Hung = hung
	if !hung {
		for _, n := range mxNames {
			v, _, _ := env.vs.GetValue("cnt" + n)
			f, _ := v.(float64)
			res.P = append(res.P, map[string]interface{}{"ev": "final", "t": 0, "n": n, "cnt": int(f), "exp": exp[n], "hung": false})
		}
	}
	res.P = append(res.P, map[string]interface{}{"ev": "end", "t": 0, "n": "", "cnt": 0, "exp": 0, "hung": hung})
	if len(evalErrs) > 0 && res.Err == nil {
		res.Err = fmt.Errorf("thread program failed (generator defect, not a verdict): %s", strings.Join(evalErrs, "; "))
	}
	if sinks {
		done := make(chan struct{})
		go func() { env.erp.Processor.ThreadPool().SetWorkerCount(0, false); close(done) }()
		select {
		case <-done:
		case <-time.After(2 * time.Second):
		}
	}
	return res
}

// C12 is the driver of property C12.
func C12(r *ev.Run) {
	tier := r.Tier
	rng := rand.New(rand.NewSource(r.Seed))
	r.Assume("thread ids come from NewThreadID() (>= 1); nested blocks of different names follow one global order (no user-made lock cycles)")
	r.Assume("occupancy is observed by Go functions called as first / last statement of each block, i.e. strictly inside the critical section")

	// 1. TLC: the lock protocol, all interleavings of three threads; wrong variants refuted
	var jobs []*MCJob
	for _, v := range []string{"code", "no-defer", "owner-early", "owner-kept"} {
		jobs = append(jobs, &MCJob{Name: "Mutex/" + v, Opt: tlc.Options{Module: "MCMutex", Config: "Mutex_" + v + ".cfg", Timeout: 10 * time.Minute, Workers: 4}})
	}
	if !runMCParallel(r, jobs, 4) {
		return
	}
	if !jobs[0].Res.OK {
		r.Inconclusive("Mutex model refuted: " + jobs[0].Res.Describe() + "\n" + jobs[0].Res.Tail(30))
		return
	}
	for _, j := range jobs[1:] {
		if j.Res.Violated == "" {
			r.Inconclusive("self-test: TLC did not refute " + j.Name + ": " + j.Res.Describe())
			return
		}
	}
	r.Set("selftest_wrong_protocols_refuted", true)

	// 2. real interpreter threads through the gates / free, validated against MutexP_Trace
	var trace []interface{}
	type runInfo struct {
		start int
		res   *c12Result
		mode  string
	}
	var runs []runInfo
	hungRuns := 0
	add := func(res *c12Result, mode string) bool {
		if res.Err != nil {
			r.Inconclusive(mode + ": " + res.Err.Error())
			hungRuns = 1000
			return false
		}
		trace = append(trace, map[string]interface{}{"ev": "reset", "t": 0, "n": "", "cnt": 0, "exp": 0, "hung": false})
		runs = append(runs, runInfo{len(trace), res, mode})
		trace = append(trace, res.P...)
		r.Case(strings.Join(res.Programs, "|")+strings.Join(res.Schedule, ","), len(res.P) > 6)
		if res.Hung {
			hungRuns++
		}
		// runs with permanently blocked threads leave goroutines behind: a handful is evidence enough
		return hungRuns < 12
	}
	_ = hungRuns
	nExp := pick(tier, 400, 3000)
	for k := 0; k < nExp; k++ {
		nt := 2 + rng.Intn(3)
		var progs [][]*mxBlock
		for t := 0; t < nt; t++ {
			progs = append(progs, randomBlocks(rng, 0, 3, 2))
		}
		var ch sched.Chooser = &sched.RandomChooser{R: rng}
		if k%3 == 1 {
			ch = sched.NewPCT(rng, 150, 3)
		}
		if !add(runMutexScenario(progs, k%4 == 3, true, ch), "explore") {
			break
		}
	}
	nFree := pick(tier, 80, 500)
	for k := 0; k < nFree; k++ {
		nt := 2 + rng.Intn(15)
		var progs [][]*mxBlock
		for t := 0; t < nt; t++ {
			progs = append(progs, randomBlocks(rng, 0, 3, 3))
		}
		if hungRuns >= 12 || !add(runMutexScenario(progs, k%2 == 1, false, nil), "free") {
			break
		}
	}
	bad, ok := validateTrace(r, "MutexP_Trace", "MutexP_Trace.cfg", trace, 10*time.Minute)
	if !ok {
		return
	}
	r.AddTraces(int64(len(runs) - len(bad)))
	r.Set("runs", len(runs))
	for _, idx := range bad {
		var ri *runInfo
		for k := range runs {
			if runs[k].start < idx {
				ri = &runs[k]
			}
		}
		e := trace[idx-1].(map[string]interface{})
		b, _ := json.Marshal(e)
		r.Violation(fmt.Sprintf("C12 rejected-event=%v", e["ev"]), fmt.Sprintf("mutex run (%s) rejected by MutexP_Trace at %s", ri.mode, b),
			map[string]interface{}{"programs": ri.res.Programs, "schedule": ri.res.Schedule, "trace": ri.res.P})
	}
	if len(runs) > 0 {
		r.Sample(map[string]interface{}{"mode": runs[0].mode, "programs": runs[0].res.Programs, "trace": head(runs[0].res.P, 20)})
	}
}
