//go:build verif

package props

import (
	"fmt"
	"math"
	"math/rand"
	"regexp"
	"strings"
	"time"

	"github.com/krotik/ecal/parser"
	"github.com/krotik/ecal/util"
	"github.com/krotik/ecal/verifhook"

	"verif/harness/ev"
	"verif/harness/tlc"
)

// exTok is a token of the reference syntax (EcalSyntax.tla).
type exTok struct {
	K  string `json:"k"`
	V  string `json:"v"`
	CS []int  `json:"cs"`
}

type exTree struct {
	N  string    `json:"n"`
	V  string    `json:"v"`
	CS []int     `json:"cs"`
	C  []*exTree `json:"c"`
}

// refVal is a value in the encoding of EcalExpr.tla (environment entries).
type refVal map[string]interface{}

type exEnvEntry struct {
	K string `json:"k"`
	V refVal `json:"v"`
}

// obsVal is what the real evaluation returned, in the encoding Expr_Trace.tla reads.
type obsVal struct {
	T       string    `json:"t"`
	X       int       `json:"x"`
	Special string    `json:"special"`
	S       []int     `json:"s"`
	B       bool      `json:"b"`
	E       []*obsVal `json:"e"`
	Ty      string    `json:"ty"`
	Tok     string    `json:"tok"`
	Msg     string    `json:"msg"`
}

type exRec struct {
	Src     string       `json:"src"`
	Toks    []exTok      `json:"toks"`
	Env     []exEnvEntry `json:"env"`
	HasTree bool         `json:"hastree"`
	Tree    *exTree      `json:"tree"`
	Out     *obsVal      `json:"out"`
}

func opTok(v string) exTok  { return exTok{K: "op", V: v, CS: []int{}} }
func numTok(v string) exTok { return exTok{K: "num", V: v, CS: []int{}} }
func strTok(v string) exTok { return exTok{K: "str", V: v, CS: bytesOf(v)} }
func idTok(v string) exTok  { return exTok{K: "id", V: v, CS: []int{}} }
func kwTok(v string) exTok  { return exTok{K: v, V: v, CS: []int{}} }

var (
	tokLP    = exTok{K: "lp", V: "(", CS: []int{}}
	tokRP    = exTok{K: "rp", V: ")", CS: []int{}}
	tokLB    = exTok{K: "lb", V: "[", CS: []int{}}
	tokRB    = exTok{K: "rb", V: "]", CS: []int{}}
	tokComma = exTok{K: "comma", V: ",", CS: []int{}}
)

func toExTree(n *parser.ASTNode) *exTree {
	if n == nil {
		return &exTree{N: "<nil>", CS: []int{}, C: []*exTree{}}
	}
	t := &exTree{N: n.Name, CS: []int{}, C: []*exTree{}}
	if n.Token != nil {
		t.V = n.Token.Val
		if n.Name == parser.NodeSTRING {
			t.CS = bytesOf(n.Token.Val)
		}
	}
	for _, c := range n.Children {
		t.C = append(t.C, toExTree(c))
	}
	return t
}

var identDetailRe = regexp.MustCompile(`^([A-Za-z][A-Za-z0-9]*)=`)

func toObs(v interface{}) *obsVal {
	o := &obsVal{S: []int{}, E: []*obsVal{}}
	switch x := v.(type) {
	case nil:
		o.T = "null"
	case float64:
		o.T = "num"
		switch {
		case math.IsNaN(x):
			o.Special = "nan"
		case math.IsInf(x, 1):
			o.Special = "inf"
		case math.IsInf(x, -1):
			o.Special = "-inf"
		case math.Abs(x) > 100000:
			o.Special = "big"
		default:
			o.X = int(math.Round(x * 10000))
		}
	case string:
		o.T = "str"
		o.S = bytesOf(x)
	case bool:
		o.T = "bool"
		o.B = x
	case []interface{}:
		o.T = "list"
		for _, e := range x {
			o.E = append(o.E, toObs(e))
		}
	default:
		o.T = "other"
		o.Msg = fmt.Sprintf("%T", v)
	}
	return o
}

func errToObs(err error) *obsVal {
	o := &obsVal{T: "err", S: []int{}, E: []*obsVal{}, Ty: "other", Msg: err.Error()}
	var re *util.RuntimeError
	switch x := err.(type) {
	case *util.RuntimeError:
		re = x
	case *util.RuntimeErrorWithDetail:
		re = x.RuntimeError
	}
	if re != nil {
		switch re.Type {
		case util.ErrNotANumber:
			o.Ty = "nan"
		case util.ErrNotABoolean:
			o.Ty = "nab"
		case util.ErrNotAList:
			o.Ty = "nal"
		}
		o.Tok = re.Detail
		if m := identDetailRe.FindStringSubmatch(re.Detail); m != nil {
			o.Tok = m[1]
		}
	}
	return o
}

// the environment of all expression cases
func c03Env() ([]exEnvEntry, map[string]interface{}) {
	num := func(p, q int) refVal { return refVal{"t": "num", "p": p, "q": q} }
	env := []exEnvEntry{
		{"n2", num(2, 1)}, {"h", num(1, 2)}, {"z", num(0, 1)},
		{"s", refVal{"t": "str", "s": bytesOf("ab")}},
		{"tt", refVal{"t": "bool", "b": true}}, {"ff", refVal{"t": "bool", "b": false}},
		{"nul", refVal{"t": "null"}},
		{"lst", refVal{"t": "list", "e": []refVal{num(1, 1), {"t": "str", "s": bytesOf("a")}}}},
	}
	goenv := map[string]interface{}{"n2": 2.0, "h": 0.5, "z": 0.0, "s": "ab", "tt": true, "ff": false, "nul": nil,
		"lst": []interface{}{1.0, "a"}}
	return env, goenv
}

var c03BinOps = []string{"*", "/", "//", "%", "+", "-", ">=", "<=", "!=", "==", ">", "<", "like", "in", "notin", "hasprefix", "hassuffix", "and", "or"}

// operand pools by kind
func rndOperand(rng *rand.Rand, kind string) []exTok {
	switch kind {
	case "num":
		if rng.Intn(3) == 0 {
			return []exTok{idTok([]string{"n2", "h", "z"}[rng.Intn(3)])}
		}
		return []exTok{numTok([]string{"0", "1", "2", "3", "5", "0.5", "1.5"}[rng.Intn(7)])}
	case "str":
		if rng.Intn(4) == 0 {
			return []exTok{idTok("s")}
		}
		// (strings which look like numbers are strings: compared as text, no operands of arithmetic)
		return []exTok{strTok([]string{"a", "ab", "b", "ba", "^a", "b$", "a.", "", "2", "10", "9", "1.5"}[rng.Intn(12)])}
	case "bool":
		return []exTok{[]exTok{kwTok("true"), kwTok("false"), idTok("tt"), idTok("ff")}[rng.Intn(4)]}
	case "null":
		return []exTok{[]exTok{kwTok("null"), idTok("nul"), idTok("undefinedvar")}[rng.Intn(3)]}
	default: // list
		if rng.Intn(2) == 0 {
			return []exTok{idTok("lst")}
		}
		return []exTok{tokLB, numTok("1"), tokComma, strTok("a"), tokComma, numTok("2"), tokRB}
	}
}

func kindFor(rng *rand.Rand, op string, right bool) string {
	// mostly the kind the operator wants, sometimes any kind (wrong-kind errors)
	if rng.Intn(5) == 0 {
		return []string{"num", "str", "bool", "null", "list"}[rng.Intn(5)]
	}
	switch op {
	case "*", "/", "//", "%", "+", "-":
		return "num"
	case "and", "or", "not":
		return "bool"
	case "like", "hasprefix", "hassuffix":
		return "str"
	case "in", "notin":
		if right {
			return "list"
		}
		return []string{"num", "str"}[rng.Intn(2)]
	case "==", "!=":
		return []string{"num", "str", "bool", "null"}[rng.Intn(4)]
	}
	return []string{"num", "str"}[rng.Intn(2)]
}

func renderToks(rng *rand.Rand, toks []exTok) string {
	var b strings.Builder
	depth := 0
	for i, t := range toks {
		switch t.K {
		case "str":
			b.WriteString(ecalQuote(t.V))
		default:
			b.WriteString(t.V)
		}
		if t.K == "lp" || t.K == "lb" {
			depth++
		}
		if t.K == "rp" || t.K == "rb" {
			depth--
		}
		if i+1 < len(toks) {
			// a layout that keeps one statement: newlines only after a binary operator or inside brackets
			binop := t.K == "op" && i > 0 && toks[i-1].K != "op" && toks[i-1].K != "lp" && toks[i-1].K != "lb" && toks[i-1].K != "comma"
			if (binop || depth > 0) && rng.Intn(6) == 0 {
				b.WriteString("\n  ")
			} else if rng.Intn(4) == 0 {
				b.WriteString("   ")
			} else {
				b.WriteString(" ")
			}
		}
	}
	return b.String()
}

// runExprCase parses and evaluates one token sequence on the real interpreter.
func runExprCase(env *ecalEnv, refEnv []exEnvEntry, toks []exTok, src string) *exRec {
	rec := &exRec{Src: src, Toks: toks, Env: refEnv, Tree: &exTree{N: "none", CS: []int{}, C: []*exTree{}}}
	var ast *parser.ASTNode
	var perr error
	pm, hung := guarded(5*time.Second, func() { ast, perr = env.parse(src) })
	if pm != "" || hung != "" {
		rec.Out = &obsVal{T: "fault", S: []int{}, E: []*obsVal{}, Msg: "parse: " + pm + hung}
		return rec
	}
	if perr != nil {
		rec.Out = &obsVal{T: "err", S: []int{}, E: []*obsVal{}, Ty: "parse", Msg: perr.Error()}
		return rec
	}
	rec.HasTree = true
	rec.Tree = toExTree(ast)
	var res interface{}
	var err error
	pm, hung = guarded(5*time.Second, func() {
		res, err = ast.Runtime.Eval(env.vs, make(map[string]interface{}), env.erp.NewThreadID())
	})
	switch {
	case pm != "" || hung != "":
		rec.Out = &obsVal{T: "fault", S: []int{}, E: []*obsVal{}, Msg: "eval: " + pm + hung}
	case err != nil:
		rec.Out = errToObs(err)
	default:
		rec.Out = toObs(res)
	}
	return rec
}

// C03 is the driver of property C03.
func C03(r *ev.Run) {
	tier := r.Tier
	rng := rand.New(rand.NewSource(r.Seed))
	verifhook.Set(func(string, ...interface{}) {})
	r.Assume("numbers: literals 0,1,2,3,5,0.5,1.5 and variables; results are compared as rationals with tolerance 1e-4; IEEE infinities/NaN, ordering and equality across kinds, and operands outside the structural regex subset are left open by the reference (totality only)")
	r.Assume("which of several possible wrong-kind errors of one expression is reported is not specified: any error some evaluation order could raise is accepted, the named operand must be the offending one")

	// 1. TLC: design theorems of the reference syntax (parse(render(t)) = t for all depth-2 trees)
	res := runMC(r, tlc.Options{Module: "MCSyntax", Config: "MCSyntax.cfg", Workers: 1, Timeout: 10 * time.Minute})
	if res == nil {
		return
	}
	if !res.OK || strings.Contains(res.Output, "is false") {
		r.Inconclusive("reference syntax round trip fails: " + res.Tail(10))
		return
	}

	env := newEcalEnv(1)
	refEnv, goEnv := c03Env()
	for k, v := range goEnv {
		env.vs.SetValue(k, v)
	}
	var trace []interface{}
	var recs []*exRec
	add := func(toks []exTok) {
		src := renderToks(rng, toks)
		rec := runExprCase(env, refEnv, toks, src)
		recs = append(recs, rec)
		trace = append(trace, rec)
		r.Case(src, len(toks) > 3)
	}
	prefixes := []string{"", "-", "+", "not"}
	withPrefix := func(p string, operand []exTok) []exTok {
		if p == "" {
			return operand
		}
		return append([]exTok{opTok(p)}, operand...)
	}
	// exhaustive: every pair of binary operators, with prefix operators at each position, operands by seeded choice
	reps := pick(tier, 2, 6)
	for _, op1 := range c03BinOps {
		for _, op2 := range c03BinOps {
			var pcombos [][3]string
			if tier == "thorough" {
				for _, a := range prefixes {
					for _, b := range prefixes {
						for _, c := range prefixes {
							pcombos = append(pcombos, [3]string{a, b, c})
						}
					}
				}
			} else {
				pcombos = append(pcombos, [3]string{"", "", ""})
				for _, p := range prefixes[1:] {
					pcombos = append(pcombos, [3]string{p, "", ""}, [3]string{"", p, ""}, [3]string{"", "", p})
				}
			}
			for _, pc := range pcombos {
				for k := 0; k < reps; k++ {
					a := rndOperand(rng, kindFor(rng, op1, false))
					b := rndOperand(rng, kindFor(rng, []string{op1, op2}[rng.Intn(2)], rng.Intn(2) == 0))
					c := rndOperand(rng, kindFor(rng, op2, true))
					var toks []exTok
					toks = append(toks, withPrefix(pc[0], a)...)
					toks = append(toks, opTok(op1))
					toks = append(toks, withPrefix(pc[1], b)...)
					toks = append(toks, opTok(op2))
					toks = append(toks, withPrefix(pc[2], c)...)
					switch k % 3 {
					case 1: // redundant / regrouping parentheses on the left pair
						n := len(withPrefix(pc[0], a)) + 1 + len(withPrefix(pc[1], b))
						toks = append(append([]exTok{tokLP}, toks[:n]...), append([]exTok{tokRP}, toks[n:]...)...)
					case 2: // parentheses around the right pair
						n := len(withPrefix(pc[0], a)) + 1
						toks = append(append(append([]exTok{}, toks[:n]...), tokLP), append(toks[n:], tokRP)...)
					}
					add(toks)
				}
			}
		}
	}
	// assignment is loosest
	for _, op := range c03BinOps {
		toks := []exTok{idTok("res"), opTok(":=")}
		toks = append(toks, rndOperand(rng, kindFor(rng, op, false))...)
		toks = append(toks, opTok(op))
		toks = append(toks, rndOperand(rng, kindFor(rng, op, true))...)
		add(toks)
	}
	// random deeper expressions
	var gen func(depth int) []exTok
	gen = func(depth int) []exTok {
		if depth == 0 || rng.Intn(4) == 0 {
			return rndOperand(rng, []string{"num", "num", "str", "bool", "null", "list"}[rng.Intn(6)])
		}
		switch rng.Intn(8) {
		case 0:
			return append([]exTok{opTok([]string{"-", "+", "not"}[rng.Intn(3)])}, gen(depth-1)...)
		case 1:
			return append(append([]exTok{tokLP}, gen(depth-1)...), tokRP)
		default:
			op := c03BinOps[rng.Intn(len(c03BinOps))]
			return append(append(gen(depth-1), opTok(op)), gen(depth-1)...)
		}
	}
	nRnd := pick(tier, 3000, 40000)
	for k := 0; k < nRnd; k++ {
		add(gen(2 + rng.Intn(3)))
	}
	// well-typed expressions (value-rich cases): typed generation, sub-expressions parenthesised
	var typed func(kind string, depth int, root bool) []exTok
	typed = func(kind string, depth int, root bool) []exTok {
		if depth == 0 || rng.Intn(4) == 0 || kind == "str" || kind == "list" {
			return rndOperand(rng, kind)
		}
		wrap := func(ts []exTok) []exTok {
			if root {
				return ts
			}
			return append(append([]exTok{tokLP}, ts...), tokRP)
		}
		if kind == "num" {
			if rng.Intn(6) == 0 {
				return append([]exTok{opTok([]string{"-", "+"}[rng.Intn(2)])}, typed("num", depth-1, false)...)
			}
			op := []string{"*", "/", "//", "%", "+", "-"}[rng.Intn(6)]
			return wrap(append(append(typed("num", depth-1, false), opTok(op)), typed("num", depth-1, false)...))
		}
		// bool
		switch rng.Intn(6) {
		case 0:
			return append([]exTok{opTok("not")}, typed("bool", depth-1, false)...)
		case 1:
			op := []string{"and", "or"}[rng.Intn(2)]
			return wrap(append(append(typed("bool", depth-1, false), opTok(op)), typed("bool", depth-1, false)...))
		case 2:
			op := []string{"like", "hasprefix", "hassuffix"}[rng.Intn(3)]
			return wrap(append(append(typed("str", 0, false), opTok(op)), typed("str", 0, false)...))
		case 3:
			op := []string{"in", "notin"}[rng.Intn(2)]
			return wrap(append(append(rndOperand(rng, []string{"num", "str"}[rng.Intn(2)]), opTok(op)), typed("list", 0, false)...))
		default:
			op := []string{">=", "<=", "!=", "==", ">", "<"}[rng.Intn(6)]
			k := []string{"num", "num", "str"}[rng.Intn(3)]
			return wrap(append(append(typed(k, depth-1, false), opTok(op)), typed(k, depth-1, false)...))
		}
	}
	nTyped := pick(tier, 4000, 40000)
	for k := 0; k < nTyped; k++ {
		add(typed([]string{"num", "bool"}[rng.Intn(2)], 1+rng.Intn(3), true))
	}
	r.Sample(recs[0])
	r.Sample(recs[len(recs)/2])

	// re-used nodes: one expression node evaluated several times with changing operands (a function body called with
	// different arguments, also by a loop) must give what a freshly parsed expression gives for the same operands
	reused, reusedBad := 0, 0
	for _, op := range c03BinOps {
		for round := 0; round < pick(tier, 2, 8); round++ {
			var xs, ys []string
			for k := 0; k < 5; k++ {
				xs = append(xs, renderToks(rng, rndOperand(rng, kindFor(rng, op, false))))
				ys = append(ys, renderToks(rng, rndOperand(rng, kindFor(rng, op, true))))
			}
			var prog strings.Builder
			fmt.Fprintf(&prog, "func ff(x, y) {\n    return x %s y\n}\nres := []\n", op)
			for k := range xs {
				fmt.Fprintf(&prog, "try {\n    res := add(res, ff(%s, %s))\n} except e {\n    res := add(res, \"error: \" + e.type)\n}\n", xs[k], ys[k])
			}
			prog.WriteString("res")
			e1 := newEcalEnv(1)
			for k, v := range goEnv {
				e1.vs.SetValue(k, v)
			}
			var got interface{}
			var gerr error
			if pm, hung := guarded(10*time.Second, func() { got, gerr = e1.run(prog.String()) }); pm != "" || hung != "" || gerr != nil {
				continue // totality of single evaluations is judged above
			}
			gl, _ := got.([]interface{})
			for k := range xs {
				e2 := newEcalEnv(1)
				for n, v := range goEnv {
					e2.vs.SetValue(n, v)
				}
				var want interface{}
				var werr error
				src := fmt.Sprintf("r := null\ntry {\n    r := %s %s %s\n} except e {\n    r := \"error: \" + e.type\n}\nr", xs[k], op, ys[k])
				if pm, hung := guarded(10*time.Second, func() { want, werr = e2.run(src) }); pm != "" || hung != "" || werr != nil || k >= len(gl) {
					continue
				}
				reused++
				r.Case("reused:"+op+":"+xs[k]+":"+ys[k]+fmt.Sprint(k), true)
				if fmt.Sprint(want) != fmt.Sprint(gl[k]) {
					reusedBad++
					r.Violation("C03 result of "+op+" depends on an earlier evaluation of the same expression node", fmt.Sprintf("%s %s %s evaluated as the %d. call of func ff(x, y) { return x %s y } gives %v, freshly parsed it gives %v", xs[k], op, ys[k], k+1, op, gl[k], want),
						map[string]interface{}{"program": prog.String(), "call": k + 1})
				}
			}
		}
	}
	r.Set("reused_node_evaluations", reused)

	bad, ok := validateTrace(r, "Expr_Trace", "Expr_Trace.cfg", trace, 60*time.Minute)
	if !ok {
		return
	}
	badRecs := map[int]bool{}
	for _, code := range bad {
		idx, clause := code/10, code%10
		badRecs[idx] = true
		rec := recs[idx-1]
		var sig string
		switch clause {
		case 1:
			sig = "C03 parse structure differs from the documented precedence"
			if !rec.HasTree {
				sig = "C03 expression does not parse"
			}
		case 2:
			sig = "C03 evaluation result differs from the reference semantics"
		default:
			sig = "C03 fault " + firstWords(rec.Out.Msg, 8)
		}
		r.Violation(sig, fmt.Sprintf("expression %q: clause %d of Expr_Trace; observed %+v", rec.Src, clause, *rec.Out), rec)
	}
	r.AddTraces(int64(len(recs) - len(badRecs)))
	r.Set("expressions", len(recs))
}

var _ = tlc.Options{}
