//go:build verif

package props

import (
	"fmt"
	"github.com/krotik/ecal/engine"
	"github.com/krotik/ecal/verifhook"
	"math/rand"
	"runtime"
	"strings"
	"sync"
	"sync/atomic"
	"time"
	"verif/harness/sched"

	"verif/harness/ev"
	"verif/harness/tlc"
)

// cascadeShape is a constant assignment of Cascade.tla: a finite tree of events.
type cascadeShape struct {
	Name    string
	Parent  []int   // Parent[e-1] (0 for the root)
	AddedBy []int   // rule index of the parent which adds e
	Trig    []bool  // does e trigger a rule
	NRules  []int   // rule actions of e
	Fails   [][]int // failing rule indices of e
}

func (sh *cascadeShape) render(failfast bool, workers int, variant string, liveness bool) (mod, cfg string) {
	k := len(sh.Parent)
	fn := func(vals []string) string {
		var parts []string
		for i, v := range vals {
			parts = append(parts, fmt.Sprintf("%d :> %s", i+1, v))
		}
		return "(" + strings.Join(parts, " @@ ") + ")"
	}
	var par, ab, tr, nr, fl []string
	for i := 0; i < k; i++ {
		par = append(par, fmt.Sprint(sh.Parent[i]))
		ab = append(ab, fmt.Sprint(sh.AddedBy[i]))
		tr = append(tr, strings.ToUpper(fmt.Sprint(sh.Trig[i])))
		nr = append(nr, fmt.Sprint(sh.NRules[i]))
		var fs []string
		for _, f := range sh.Fails[i] {
			fs = append(fs, fmt.Sprint(f))
		}
		fl = append(fl, "{"+strings.Join(fs, ",")+"}")
	}
	var ws []string
	for w := 1; w <= workers; w++ {
		ws = append(ws, fmt.Sprintf("\"w%d\"", w))
	}
	mod = fmt.Sprintf("---- MODULE MCCascade ----\nEXTENDS Cascade\nMC_Parent == %s\nMC_AddedBy == %s\nMC_Trig == %s\nMC_NRules == %s\nMC_Fails == %s\nMC_Workers == {%s}\n====\n",
		fn(par), fn(ab), fn(tr), fn(nr), fn(fl), strings.Join(ws, ","))
	spec := "Spec"
	if liveness {
		spec = "FairSpec"
	}
	cfg = fmt.Sprintf("SPECIFICATION %s\nCONSTANTS\n K = %d\n Parent <- MC_Parent\n AddedBy <- MC_AddedBy\n Trig <- MC_Trig\n NRules <- MC_NRules\n Fails <- MC_Fails\n FailFast = %s\n Workers <- MC_Workers\n Variant = %q\nINVARIANTS WaitAfterCascade ReportExact PostedOnce PostedAtZero HandlerOnce NoFault HandlerAtEnd NoStuck\nCHECK_DEADLOCK FALSE\n",
		spec, k, strings.ToUpper(fmt.Sprint(failfast)), variant)
	if liveness {
		cfg += "PROPERTY Returns\n"
	}
	return
}

func cascadeShapes(tier string) []*cascadeShape {
	shapes := []*cascadeShape{
		{Name: "single-failing", Parent: []int{0}, AddedBy: []int{0}, Trig: []bool{true}, NRules: []int{2}, Fails: [][]int{{1}}},
		{Name: "fanout2", Parent: []int{0, 1, 1}, AddedBy: []int{0, 1, 1}, Trig: []bool{true, true, true}, NRules: []int{1, 1, 1}, Fails: [][]int{{}, {1}, {}}},
		{Name: "chain3-fail-last", Parent: []int{0, 1, 2}, AddedBy: []int{0, 1, 1}, Trig: []bool{true, true, true}, NRules: []int{1, 2, 1}, Fails: [][]int{{}, {1}, {1}}},
		{Name: "skip-and-fail", Parent: []int{0, 1, 1, 2}, AddedBy: []int{0, 1, 2, 1}, Trig: []bool{true, true, false, true}, NRules: []int{2, 1, 0, 1}, Fails: [][]int{{1}, {}, {}, {1}}},
	}
	if tier == "thorough" {
		shapes = append(shapes,
			&cascadeShape{Name: "wide-deep", Parent: []int{0, 1, 1, 2, 2}, AddedBy: []int{0, 1, 2, 1, 1}, Trig: []bool{true, true, true, true, false}, NRules: []int{2, 2, 1, 1, 0}, Fails: [][]int{{2}, {1}, {1}, {}, {}}},
			&cascadeShape{Name: "all-fail", Parent: []int{0, 1, 1, 3}, AddedBy: []int{0, 1, 1, 1}, Trig: []bool{true, true, true, true}, NRules: []int{1, 1, 1, 1}, Fails: [][]int{{1}, {1}, {1}, {1}}},
		)
	}
	return shapes
}

// C02 is the driver of property C02.
func C02(r *ev.Run) {
	tier := r.Tier
	rng := rand.New(rand.NewSource(r.Seed))
	r.Assume("every rule action terminates and at least one worker exists (the statement's precondition for 'does return')")
	r.Assume("the order of wait-return and finish-handler invocation is not constrained by the statement; the handler count is checked at the end of the run")

	// 1. TLC: the finish protocol of a cascade, all interleavings, for a set of event trees
	var jobs []*MCJob
	maxW := pick(tier, 2, 3)
	for _, sh := range cascadeShapes(tier) {
		for _, ff := range []bool{false, true} {
			for w := 1; w <= maxW; w++ {
				mod, cfg := sh.render(ff, w, "code", false)
				jobs = append(jobs, &MCJob{Name: fmt.Sprintf("Cascade/%s/ff=%v/w=%d", sh.Name, ff, w),
					Files: map[string]string{"MCCascade.tla": mod, "MCCascade.cfg": cfg},
					Opt:   tlc.Options{Module: "MCCascade", Config: "MCCascade.cfg", Timeout: 20 * time.Minute}})
			}
		}
		mod, cfg := sh.render(true, 2, "code", true)
		jobs = append(jobs, &MCJob{Name: fmt.Sprintf("Cascade/%s/liveness", sh.Name),
			Files: map[string]string{"MCCascade.tla": mod, "MCCascade.cfg": cfg},
			Opt:   tlc.Options{Module: "MCCascade", Config: "MCCascade.cfg", Timeout: 20 * time.Minute}})
	}
	nCode := len(jobs)
	// self-test: wrong protocols must be refuted
	for _, v := range []string{"post-early", "finish-first", "allerrors-asserts"} {
		sh := cascadeShapes(tier)[2]
		if v == "allerrors-asserts" {
			sh = cascadeShapes(tier)[1] // two failing siblings on two workers
			sh = &cascadeShape{Name: "two-failing-siblings", Parent: []int{0, 1, 1}, AddedBy: []int{0, 1, 1}, Trig: []bool{true, true, true}, NRules: []int{1, 1, 1}, Fails: [][]int{{}, {1}, {1}}}
		}
		mod, cfg := sh.render(false, 2, v, false)
		jobs = append(jobs, &MCJob{Name: "Cascade/selftest/" + v, Files: map[string]string{"MCCascade.tla": mod, "MCCascade.cfg": cfg},
			Opt: tlc.Options{Module: "MCCascade", Config: "MCCascade.cfg", Timeout: 10 * time.Minute}})
	}
	{ // the caller which registers for the end too late never returns: refuted by the liveness property
		sh := cascadeShapes(tier)[0]
		mod, cfg := sh.render(false, 1, "observer-late", true)
		jobs = append(jobs, &MCJob{Name: "Cascade/selftest/observer-late", Files: map[string]string{"MCCascade.tla": mod, "MCCascade.cfg": cfg},
			Opt: tlc.Options{Module: "MCCascade", Config: "MCCascade.cfg", Timeout: 10 * time.Minute}})
	}
	if !runMCParallel(r, jobs, 8) {
		return
	}
	for k, j := range jobs {
		if k < nCode {
			if !j.Res.OK {
				r.Inconclusive(fmt.Sprintf("Cascade model %s refuted by TLC: %s\n%s", j.Name, j.Res.Describe(), j.Res.Tail(40)))
				return
			}
		} else if j.Res.Violated == "" && !(strings.HasSuffix(j.Name, "observer-late") && !j.Res.OK) {
			r.Inconclusive(fmt.Sprintf("self-test: TLC did not refute %s: %s", j.Name, j.Res.Describe()))
			return
		}
	}
	r.Set("selftest_wrong_protocols_refuted", true)

	// 3. many callers at once: short cascades (a root which adds one or two children, some rules fail) waited for by 16
	//    callers on 8 workers. Every call must return, with exactly the errors of its own cascade.
	cascadeHammer(r, 16, pick(tier, 1500, 15000), 8)

	// 4. the ECAL form of the call: sinks, addEventAndWait, the returned list judged against the reference evaluation
	c02EcalPhase(r, rng, pick(tier, 150, 1500))

	// 2. real processor runs validated against the property-level specification
	runCascades(r, rng, map[string]bool{"waitret": true, "final": true, "finished": true, "handler": true,
		"child": true, "activate": true, "skipped": true, "root": true}, "C02")
}

// cascadeHammer: the windows between adding an event, registering for its end and the end itself are a few instructions
// wide - they are met by volume. A call which never returns is judged from the goroutine states (callers in
// WaitGroup.Wait, no worker running an action), not from the time it took.
func cascadeHammer(r *ev.Run, callers, calls, workers int) {
	verifhook.Set(func(string, ...interface{}) {})
	proc := engine.NewProcessor(workers)
	proc.ThreadPool().TooManyCallback = func() {}
	proc.AddRule(&engine.Rule{Name: "root", KindMatch: []string{"h.root"}, ScopeMatch: []string{}, Priority: 0,
		Action: func(p engine.Processor, m engine.Monitor, e *engine.Event, tid uint64) error {
			n, _ := e.State()["n"].(int)
			for c := 0; c < 1+n%2; c++ {
				p.AddEvent(engine.NewEvent(fmt.Sprintf("%s.c%d", e.Name(), c), []string{"h", "child"}, map[interface{}]interface{}{"n": n, "c": c}), m.NewChildMonitor(0))
			}
			return nil
		}})
	proc.AddRule(&engine.Rule{Name: "child", KindMatch: []string{"h.child"}, ScopeMatch: []string{}, Priority: 0,
		Action: func(p engine.Processor, m engine.Monitor, e *engine.Event, tid uint64) error {
			if n, _ := e.State()["n"].(int); n%3 == 0 {
				return fmt.Errorf("fail %s", e.Name())
			}
			return nil
		}})
	proc.Start()
	var progress, wrong int64
	var wrongMsg atomic.Value
	var wg sync.WaitGroup
	for c := 0; c < callers; c++ {
		c := c
		wg.Add(1)
		go func() {
			defer wg.Done()
			for k := 0; k < calls; k++ {
				n := c*calls + k
				name := fmt.Sprintf("E%d", n)
				root := proc.NewRootMonitor(nil, nil)
				proc.AddEventAndWait(engine.NewEvent(name, []string{"h", "root"}, map[interface{}]interface{}{"n": n}), root)
				// exactly the errors of this cascade: one per child if n is a multiple of three
				want := 0
				if n%3 == 0 {
					want = 1 + n%2
				}
				got := 0
				foreign := ""
				for _, te := range root.AllErrors() {
					got += len(te.ErrorMap)
					if !strings.HasPrefix(te.Event.Name(), name+".") {
						foreign = te.Event.Name()
					}
				}
				if got != want || foreign != "" {
					atomic.AddInt64(&wrong, 1)
					wrongMsg.Store(fmt.Sprintf("cascade of %s: %d error entries (expected %d) %s", name, got, want, foreign))
				}
				atomic.AddInt64(&progress, 1)
			}
		}()
	}
	done := make(chan struct{})
	go func() { wg.Wait(); close(done) }()
	last, lastChange := int64(-1), time.Now()
	stuck := false
	for !stuck {
		select {
		case <-done:
			stuck = true
			lastChange = time.Time{}
		case <-time.After(200 * time.Millisecond):
			if p := atomic.LoadInt64(&progress); p != last {
				last, lastChange = p, time.Now()
			} else if time.Since(lastChange) > 5*time.Second {
				stuck = true
			}
		}
	}
	total := int64(callers * calls)
	r.Set("hammer_calls", atomic.LoadInt64(&progress))
	r.Case(fmt.Sprintf("hammer/%d/%d/%d", callers, calls, workers), true)
	if !lastChange.IsZero() {
		// no call returned for five seconds: who waits where?
		waiting, acting := 0, 0
		for _, st := range sched.GoroutineStates() {
			_ = st
		}
		buf := make([]byte, 4<<20)
		dump := string(buf[:runtime.Stack(buf, true)])
		for _, blk := range strings.Split(dump, "\n\n") {
			if strings.Contains(blk, "AddEventAndWait") && strings.Contains(blk, "sync.WaitGroup.Wait") {
				waiting++
			}
			if strings.Contains(blk, "props.cascadeHammer.func") && strings.Contains(blk, "ProcessEvent") {
				acting++
			}
		}
		if waiting > 0 && acting == 0 {
			r.Violation("C02 AddEventAndWait never returns although its cascade has finished", fmt.Sprintf("%d of %d calls returned; %d callers wait in AddEventAndWait while no worker runs an action", atomic.LoadInt64(&progress), total, waiting),
				map[string]interface{}{"callers": callers, "calls": calls, "workers": workers})
		} else {
			r.Inconclusive(fmt.Sprintf("hammer made no progress for 5 s (%d callers waiting, %d actions running)", waiting, acting))
		}
		go proc.ThreadPool().SetWorkerCount(0, false)
		return
	}
	if w := atomic.LoadInt64(&wrong); w > 0 {
		msg, _ := wrongMsg.Load().(string)
		r.Violation("C02 a waited-for cascade reports other errors than its own", fmt.Sprintf("%d of %d calls: %s", w, total, msg), map[string]interface{}{"callers": callers, "calls": calls, "workers": workers})
	}
	proc.Finish()
}
