//go:build verif

package props

import (
	"encoding/json"
	"fmt"
	"math/rand"
	"regexp"
	"strings"
	"time"

	"github.com/krotik/ecal/parser"
	"github.com/krotik/ecal/util"
	"github.com/krotik/ecal/verifhook"

	"verif/harness/ev"
	"verif/harness/tlc"
)

func bytesOf(s string) []int {
	out := make([]int, len(s))
	for i := 0; i < len(s); i++ {
		out[i] = int(s[i])
	}
	return out
}

type lexTokRec struct {
	Ev   string `json:"ev"`
	Kind string `json:"kind"`
	Pos  int    `json:"pos"`
	Line int    `json:"line"`
	Col  int    `json:"col"`
	Txt  []int  `json:"txt"`
}

// lexRecords lexes src with the real lexer and returns the trace records (src + one per token, EOF dropped).
func lexRecords(src string) (recs []interface{}, toks []parser.LexToken) {
	recs = append(recs, map[string]interface{}{"ev": "src", "bytes": bytesOf(src)})
	toks = parser.LexToList("c18", src)
	for _, t := range toks {
		if t.ID == parser.TokenEOF {
			continue
		}
		rc := lexTokRec{Ev: "tok", Pos: t.Pos, Line: t.Lline, Col: t.Lpos, Txt: []int{}}
		switch {
		case t.ID == parser.TokenError:
			rc.Kind = "error"
		case t.ID == parser.TokenPOSTCOMMENT:
			rc.Kind = "post"
		case t.ID == parser.TokenPRECOMMENT:
			rc.Kind = "pre"
		case t.ID == parser.TokenSTRING:
			rc.Kind = "string"
		case t.ID == parser.TokenNUMBER:
			rc.Kind = "word"
			// the value of a number is lower-cased: compare case-insensitively by using the source bytes if they match
			if t.Pos+len(t.Val) <= len(src) && strings.EqualFold(src[t.Pos:t.Pos+len(t.Val)], t.Val) {
				rc.Txt = bytesOf(src[t.Pos : t.Pos+len(t.Val)])
			} else {
				rc.Txt = bytesOf(t.Val)
			}
		default:
			rc.Kind = "word"
			rc.Txt = bytesOf(t.Val)
		}
		recs = append(recs, rc)
	}
	return
}

var c18Idents = []string{"a", "foo", "x1", "if", "for", "return", "null", "B2"}
var c18Symbols = []string{":=", "+", "-", "*", "(", ")", "[", "]", "{", "}", ",", "==", ">=", ".", ";", ":", "//", "%"}
var c18Numbers = []string{"1", "42", "3.5", "1e+5", "007"}

// randomLexSource builds a lexable source from pieces separated by random whitespace.
func randomLexSource(rng *rand.Rand, pieces int) string {
	var b strings.Builder
	ws := func(must bool) {
		n := rng.Intn(3)
		if must && n == 0 {
			n = 1
		}
		for i := 0; i < n; i++ {
			b.WriteString([]string{" ", " ", "\t", "\n", "\r\n", "\n", "  ", "\r"}[rng.Intn(8)])
		}
	}
	inner := func() string {
		var s strings.Builder
		n := rng.Intn(6)
		for i := 0; i < n; i++ {
			s.WriteString([]string{"a", "b c", "\n", "ä", "€", "#", "*", "/", "  ", "\t", "{{x}}", "\r\n", "\\", "\\\\", "\\n"}[rng.Intn(15)])
		}
		return s.String()
	}
	for p := 0; p < pieces; p++ {
		switch rng.Intn(10) {
		case 0, 1:
			b.WriteString(c18Idents[rng.Intn(len(c18Idents))])
			ws(true)
		case 2:
			b.WriteString(c18Numbers[rng.Intn(len(c18Numbers))])
			ws(true)
		case 3, 4:
			b.WriteString(c18Symbols[rng.Intn(len(c18Symbols))])
			ws(false)
		case 5:
			q := []string{"\"", "'"}[rng.Intn(2)]
			b.WriteString(q + strings.NewReplacer(q, "").Replace(inner()) + q)
			ws(true)
		case 6:
			q := []string{"\"", "'"}[rng.Intn(2)]
			b.WriteString("r" + q + strings.Replace(inner(), q, "", -1) + q)
			ws(true)
		case 7, 8:
			b.WriteString("#" + strings.NewReplacer("\n", "", "\r", "").Replace(inner()) + "\n")
			ws(false)
		default:
			b.WriteString("/*" + strings.Replace(inner(), "*/", "", -1) + "*/")
			ws(true)
		}
	}
	return b.String()
}

var classBytes = map[string]string{"c": "a", "s": " ", "n": "\n", "h": "#", "q": "\"", "o": "/*", "e": "*/"}

// C18 is the driver of property C18.
func C18(r *ev.Run) {
	tier := r.Tier
	rng := rand.New(rand.NewSource(r.Seed))
	verifhook.Set(func(string, ...interface{}) {})
	r.Assume("comment tokens are located at their first content character (what Pos denotes for them); EOF's position is not judged")

	// 1. TLC: the position tracking of each lexer branch against positions computed from offsets
	n := pick(tier, 5, 7)
	mk := func(variant, inv string, n int, export bool) string {
		c := fmt.Sprintf("SPECIFICATION Spec\nCONSTANTS\n N = %d\n Variant = %q\nINVARIANTS %s\nCHECK_DEADLOCK FALSE\n", n, variant, inv)
		return c
	}
	mod := "---- MODULE MCLexer ----\nEXTENDS Lexer, Json\nExport == (k > Len(input)) => PrintT(<<\"BEHAVIOUR\", ToJson([input |-> input, toks |-> toks])>>)\n====\n"
	jobs := []*MCJob{
		{Name: fmt.Sprintf("Lexer/ideal/N=%d", n), Files: map[string]string{"MCLexer.tla": mod, "L.cfg": mk("ideal", "TrueLines TrueColumns", n, false)}, Opt: tlc.Options{Module: "MCLexer", Config: "L.cfg", Timeout: 20 * time.Minute, Workers: 6}},
		{Name: fmt.Sprintf("Lexer/found-except-known/N=%d", n), Files: map[string]string{"MCLexer.tla": mod, "L.cfg": mk("found", "TrueLines TrueColumnsExceptAfterLineComment", n, false)}, Opt: tlc.Options{Module: "MCLexer", Config: "L.cfg", Timeout: 20 * time.Minute, Workers: 6}},
		{Name: "Lexer/found-strict", Files: map[string]string{"MCLexer.tla": mod, "L.cfg": mk("found", "TrueLines TrueColumns", 4, false)}, Opt: tlc.Options{Module: "MCLexer", Config: "L.cfg", Timeout: 10 * time.Minute, Workers: 2}},
		{Name: "Lexer/found-export", Files: map[string]string{"MCLexer.tla": mod, "L.cfg": mk("found", "Export", pick(tier, 4, 5), true)}, Opt: tlc.Options{Module: "MCLexer", Config: "L.cfg", Timeout: 10 * time.Minute, Workers: 1}},
	}
	if !runMCParallel(r, jobs, 4) {
		return
	}
	if !jobs[0].Res.OK || !jobs[1].Res.OK {
		r.Inconclusive("Lexer model refuted: " + jobs[0].Res.Describe() + " / " + jobs[1].Res.Describe() + "\n" + jobs[1].Res.Tail(20))
		return
	}
	r.Set("model_of_code_deviates_only_in_known_class", true)
	r.Set("selftest_code_variant_refuted_by_strict_property", jobs[2].Res.Violated != "")
	if jobs[2].Res.Violated == "" {
		r.Inconclusive("self-test: the strict property was not refuted for the model of the code")
		return
	}

	// 2. direction A: the stamps the model of the code predicts, compared with the real lexer wherever the
	//    real lexer emits a token at the same offset (implementation-level conformance: mismatch = DRIFT)
	compared, drift := 0, 0
	for _, js := range jobs[3].Res.Printed("BEHAVIOUR") {
		var b struct {
			Input []string `json:"input"`
			Toks  []struct {
				Off, Line, Col int
				Kind           string
			} `json:"toks"`
		}
		if json.Unmarshal([]byte(js), &b) != nil {
			continue
		}
		var src strings.Builder
		for _, c := range b.Input {
			src.WriteString(classBytes[c])
		}
		real := map[int]parser.LexToken{}
		for _, t := range parser.LexToList("c18", src.String()) {
			if t.ID != parser.TokenEOF {
				real[t.Pos] = t
			}
		}
		for _, mt := range b.Toks {
			if rt, ok := real[mt.Off]; ok {
				compared++
				if rt.Lline != mt.Line || rt.Lpos != mt.Col {
					drift++
					r.Drift(fmt.Sprintf("source %q offset %d: lexer stamps (%d,%d), the model of the code predicts (%d,%d)", src.String(), mt.Off, rt.Lline, rt.Lpos, mt.Line, mt.Col))
				}
			}
		}
		r.Case("A:"+src.String(), len(b.Input) > 1)
	}
	r.Set("model_stamps_compared_with_lexer", compared)
	if compared < 100 {
		r.Inconclusive("too few model stamps could be compared with the real lexer")
		return
	}

	// 3. direction B: random sources, planted parser / runtime errors; validated by TLC (Lexer_Trace)
	var trace []interface{}
	type meta struct {
		src  string
		toks []parser.LexToken
		what string
	}
	metas := map[int]*meta{}
	nSrc := pick(tier, 1500, 15000)
	for k := 0; k < nSrc; k++ {
		src := randomLexSource(rng, 1+rng.Intn(12))
		recs, toks := lexRecords(src)
		m := &meta{src: src, toks: toks, what: "token"}
		trace = append(trace, recs[0])
		for _, rc := range recs[1:] {
			trace = append(trace, rc)
			metas[len(trace)] = m
		}
		r.Case("B:"+src, len(toks) > 2)
		if k == 0 {
			r.Sample(map[string]interface{}{"source": src, "records": head(recs, 6)})
		}
	}
	// planted errors: the reported line/column must be those of the planted token
	nErr := pick(tier, 300, 3000)
	for k := 0; k < nErr; k++ {
		var pre strings.Builder
		np := rng.Intn(6)
		for i := 0; i < np; i++ {
			pre.WriteString([]string{"a := 1\n", "# c\n", "/* x\n y */\n", "\n", "b := \"s\"\n", "   \t\n", "c := r'x\ny'\n", "d := 2 # e\n"}[rng.Intn(8)])
		}
		pad := strings.Repeat(" ", rng.Intn(4))
		if k%2 == 0 {
			src := pre.String() + pad + "x := )"
			off := len(pre.String()) + len(pad) + 5
			_, err := parser.Parse("c18", src)
			pe, ok := err.(*parser.Error)
			if !ok {
				continue
			}
			trace = append(trace, map[string]interface{}{"ev": "src", "bytes": bytesOf(src)})
			trace = append(trace, lexTokRec{Ev: "tok", Kind: "word", Pos: off, Line: pe.Line, Col: pe.Pos, Txt: bytesOf(")")})
			metas[len(trace)] = &meta{src: src, what: "parser error"}
			r.Case("E:"+src, true)
		} else {
			src := pre.String() + pad + "raise(\"X\")"
			off := len(pre.String()) + len(pad)
			env := newEcalEnv(1)
			_, err := env.run(src)
			var line, pos int
			switch x := err.(type) {
			case *util.RuntimeError:
				line, pos = x.Line, x.Pos
			case *util.RuntimeErrorWithDetail:
				line, pos = x.Line, x.Pos
			default:
				continue
			}
			trace = append(trace, map[string]interface{}{"ev": "src", "bytes": bytesOf(src)})
			trace = append(trace, lexTokRec{Ev: "tok", Kind: "word", Pos: off, Line: line, Col: pos, Txt: bytesOf("raise")})
			metas[len(trace)] = &meta{src: src, what: "runtime error"}
			r.Case("R:"+src, true)
		}
	}
	// comments are not tokens: a program parses to the same tree (or fails to parse) with and without its comments when
	// the line structure is kept - how statements are separated must not depend on a comment standing in between
	commentRe := regexp.MustCompile(`#[^\n]*|/\*[^*]*\*/`)
	cmpN, cmpBad := 0, 0
	for k := 0; k < pick(tier, 3000, 30000) && cmpBad < 5; k++ {
		src := renderFmt(genFmtProgram(rng), map[string]bool{"percent-in-comment": true})
		if !strings.ContainsAny(src, "#*") {
			continue
		}
		bare := commentRe.ReplaceAllString(src, "")
		a1, e1 := parser.Parse("c18", src)
		a2, e2 := parser.Parse("c18", bare)
		cmpN++
		r.Case("comments:"+src, true)
		switch {
		case (e1 == nil) != (e2 == nil):
			cmpBad++
			r.Violation("C18 a comment decides whether the text parses", fmt.Sprintf("with comments: %v; without: %v", e1, e2), map[string]string{"with_comments": src, "without": bare})
		case e1 == nil && !sameFmtTree(toFmtTree(a1), toFmtTree(a2)):
			cmpBad++
			r.Violation("C18 a comment changes how statements are separated", "the tree of the text with comments differs from the tree of the same lines without them: "+firstTreeDiff(toFmtTree(a1), toFmtTree(a2)), map[string]string{"with_comments": src, "without": bare})
		}
	}
	r.Set("programs_compared_with_and_without_comments", cmpN)
	bad, ok := validateTrace(r, "Lexer_Trace", "Lexer_Trace.cfg", trace, 20*time.Minute)
	if !ok {
		return
	}
	badRecs := map[int]bool{}
	for _, code := range bad {
		idx, clause := code/10, code%10
		badRecs[idx] = true
		m := metas[idx]
		var rc lexTokRec
		b, _ := json.Marshal(trace[idx-1])
		json.Unmarshal(b, &rc)
		sig := fmt.Sprintf("C18 %s position clause %d wrong", m.what, clause)
		if clause == 3 && afterLineComment(m.src, rc.Pos) {
			sig = "C18 column-on-line-after-line-comment"
		}
		r.Violation(sig, fmt.Sprintf("%s at offset %d of %q reported as line %d column %d (clause %d of Lexer_Trace)", m.what, rc.Pos, m.src, rc.Line, rc.Col, clause),
			map[string]interface{}{"source": m.src, "record": rc})
	}
	r.AddTraces(int64(len(metas) - len(badRecs)))
	r.Set("token_records", len(metas))
}

// afterLineComment: the last line feed before off was consumed by a # comment (as seen by the real lexer).
func afterLineComment(src string, off int) bool {
	if off > len(src) {
		return false
	}
	lf := strings.LastIndex(src[:off], "\n")
	if lf < 0 {
		return false
	}
	for _, t := range parser.LexToList("c18", src) {
		if t.ID == parser.TokenPOSTCOMMENT && t.Pos <= lf && lf < t.Pos+len(t.Val) {
			return true
		}
	}
	return false
}
