//go:build verif

package props

import (
	"fmt"
	"math/rand"
	"strings"
	"sync"
	"sync/atomic"
	"time"

	"github.com/krotik/ecal/scope"
	"github.com/krotik/ecal/verifhook"

	"verif/harness/ev"
)

type ipCode struct {
	Code []int `json:"code"`
	Val  []int `json:"val"`
	Tick bool  `json:"tick"`
	Next bool  `json:"next"`
}

type ipRec struct {
	Src   string   `json:"src"`
	Lit   []int    `json:"lit"`
	Raw   bool     `json:"raw"`
	Codes []ipCode `json:"codes"`
	IsStr bool     `json:"isstr"`
	Out   []int    `json:"out"`
	Ticks int      `json:"ticks"`
	Fault string   `json:"fault"`
}

var c14Ticks, c14Nexts int64

// the variables of every case: data which itself looks like code
var c14Vars = map[string]string{
	"a": "x",
	"b": "{{a}}",            // data containing an expression
	"c": "{{c}}",            // self-reproducing
	"d": "}}",               // a closing marker
	"e": "{{verif.tick()}}", // data with a side effect
	"f": "{{",
	"g": "p{{e}}q",
	"h": "😀😀{{a}}", // multi-byte characters in front of markers in the last bytes of a value
	"i": "ää{{d}}ö{{e}}",
	"j": "100% %d%%s %v%", // data which looks like a format string
}

// expressions with known value text
func c14Codes() []ipCode {
	var cs []ipCode
	add := func(code, val string, tick bool) {
		cs = append(cs, ipCode{Code: bytesOf(code), Val: bytesOf(val), Tick: tick})
	}
	for k, v := range c14Vars {
		add(k, v, false)
		add(" "+k+" ", v, false)
	}
	add("1+2", "3", false)
	add("verif.tick()", "T", true)
	cs = append(cs, ipCode{Code: bytesOf("verif.next()"), Val: []int{}, Next: true})
	return cs
}

// C14 is the driver of property C14.
func C14(r *ev.Run) {
	tier := r.Tier
	rng := rand.New(rand.NewSource(r.Seed))
	verifhook.Set(func(string, ...interface{}) {})
	bindVerif("tick", func(tid uint64, args []interface{}) (interface{}, error) {
		atomic.AddInt64(&c14Ticks, 1)
		return "T", nil
	})
	bindVerif("next", func(tid uint64, args []interface{}) (interface{}, error) {
		return float64(atomic.AddInt64(&c14Nexts, 1)), nil
	})
	r.Assume("exact output is demanded for literals whose {{...}} expressions all come from a table of expressions with known value text; any other arrangement of markers only has to yield a string in bounded time")
	codes := c14Codes()
	pieces := []string{"{{", "}}", "{", "}", "t", " ", "\"", "\\", "\n", "{{a}}", "{{b}}", "{{c}}", "{{d}}", "{{e}}", "{{f}}", "{{g}}", "{{1+2}}",
		"{{verif.tick()}}", "{{verif.next()}}", "{{h}}", "{{i}}", "{{j}}", "%", "%d", "😀", "{{ a }}", "{{zz}}", "{{1 +}}", "{{verif.tick() + a}}", "{{a", "b}}", "#", "ä"}
	var setup strings.Builder
	for k, v := range c14Vars {
		fmt.Fprintf(&setup, "%s := r\"%s\"\n", k, v)
	}
	var trace []interface{}
	var recs []*ipRec
	hangs := 0
	run := func(val string, raw bool) {
		if raw && strings.ContainsAny(val, "\"") {
			return
		}
		lit := ecalQuote(val)
		if raw {
			lit = "r\"" + val + "\""
		}
		src := setup.String() + "res := " + lit + "\nres"
		rec := &ipRec{Src: lit, Lit: bytesOf(val), Raw: raw, Codes: codes, Out: []int{}}
		atomic.StoreInt64(&c14Ticks, 0)
		atomic.StoreInt64(&c14Nexts, 0)
		env := newEcalEnv(1)
		var res interface{}
		var err error
		pm, hung := guarded(3*time.Second, func() { res, err = env.run(src) })
		rec.Ticks = int(atomic.LoadInt64(&c14Ticks))
		switch {
		case pm != "":
			rec.Fault = "panic: " + pm
		case hung != "":
			rec.Fault = "evaluation does not terminate"
			hangs++
		case err != nil:
			rec.Fault = "error instead of a string: " + err.Error()
		default:
			if s, ok := res.(string); ok {
				rec.IsStr = true
				rec.Out = bytesOf(s)
			}
		}
		recs = append(recs, rec)
		trace = append(trace, rec)
		r.Case(lit, len(val) > 2)
	}
	// exhaustive: all literals of up to 2 (quick) / 3 (thorough) pieces; random longer ones
	maxLen := pick(tier, 2, 3)
	var gen func(prefix string, n int)
	gen = func(prefix string, n int) {
		if hangs > 5 {
			return
		}
		if n > 0 {
			run(prefix, false)
			if n <= 2 {
				run(prefix, true)
			}
		}
		if n == maxLen {
			return
		}
		for _, p := range pieces {
			gen(prefix+p, n+1)
		}
	}
	gen("", 0)
	for k := 0; k < pick(tier, 2000, 30000) && hangs <= 5; k++ {
		var b strings.Builder
		for i, n := 0, 3+rng.Intn(5); i < n; i++ {
			b.WriteString(pieces[rng.Intn(len(pieces))])
		}
		run(b.String(), k%5 == 0)
	}
	if len(recs) > 3 {
		r.Sample(map[string]interface{}{"literal": recs[len(recs)/2].Src, "result": string(intsToBytes(recs[len(recs)/2].Out)), "ticks": recs[len(recs)/2].Ticks})
	}
	// the same literal node evaluated by several threads at once (sinks triggered together share their code): every
	// evaluation gives the sequential result and runs each expression once
	concRounds, concBad := 0, 0
	for _, lit := range []string{"p{{a}}q{{verif.tick()}}r{{1+2}}", "{{verif.tick()}}{{verif.tick()}}", "x{{b}}y{{g}}z", "{{a}}{{a}}{{a}}{{verif.tick()}}"} {
		src := setup.String() + "res := " + ecalQuote(lit) + "\nres"
		seqEnv := newEcalEnv(1)
		atomic.StoreInt64(&c14Ticks, 0)
		want, werr := seqEnv.run(src)
		ticks1 := atomic.LoadInt64(&c14Ticks)
		if werr != nil {
			continue
		}
		for round := 0; round < pick(tier, 150, 1500) && concBad < 3; round++ {
			env := newEcalEnv(1)
			ast, perr := env.parse(src)
			if perr != nil {
				break
			}
			const n = 8
			atomic.StoreInt64(&c14Ticks, 0)
			var wg, ready sync.WaitGroup
			start := make(chan struct{})
			results := make([]interface{}, n)
			faults := make([]string, n)
			for g := 0; g < n; g++ {
				g := g
				wg.Add(1)
				ready.Add(1)
				go func() {
					defer wg.Done()
					defer func() {
						if rec := recover(); rec != nil {
							faults[g] = fmt.Sprint(rec)
						}
					}()
					vs := scope.NewScope(scope.GlobalScope)
					ready.Done()
					<-start
					v, err := ast.Runtime.Eval(vs, make(map[string]interface{}), env.erp.NewThreadID())
					if err != nil {
						faults[g] = err.Error()
					}
					results[g] = v
				}()
			}
			ready.Wait()
			close(start)
			wg.Wait()
			concRounds++
			r.Case(fmt.Sprintf("concurrent:%s:%d", lit, round), true)
			total := atomic.LoadInt64(&c14Ticks)
			for g := 0; g < n; g++ {
				if faults[g] != "" || fmt.Sprint(results[g]) != fmt.Sprint(want) {
					concBad++
					r.Violation("C14 literal evaluated by several threads at once gives another result", fmt.Sprintf("literal %q: thread %d of %d got %v %s, sequentially %v", lit, g+1, n, results[g], faults[g], want), map[string]interface{}{"literal": lit, "threads": n})
					break
				}
			}
			if total != int64(n)*ticks1 {
				concBad++
				r.Violation("C14 expression of a literal evaluated a wrong number of times under concurrent evaluation", fmt.Sprintf("literal %q evaluated by %d threads: the side-effect function ran %d times, expected %d", lit, n, total, int64(n)*ticks1), map[string]interface{}{"literal": lit, "threads": n})
			}
		}
	}
	r.Set("concurrent_rounds", concRounds)

	bad, ok := validateTrace(r, "Interp_Trace", "Interp_Trace.cfg", trace, 60*time.Minute)
	if !ok {
		return
	}
	badRecs := map[int]bool{}
	for _, code := range bad {
		idx, clause := code/10, code%10
		badRecs[idx] = true
		rec := recs[idx-1]
		sig := map[int]string{1: "C14 result differs from the one-pass substitution", 2: "C14 expression evaluated a wrong number of times (data evaluated as code?)", 3: "C14 no string: " + firstWords(rec.Fault, 5)}[clause]
		r.Violation(sig, fmt.Sprintf("literal %s: out=%q ticks=%d fault=%s", rec.Src, string(intsToBytes(rec.Out)), rec.Ticks, rec.Fault), rec)
	}
	r.AddTraces(int64(len(recs) - len(badRecs)))
	r.Set("literals", len(recs))
}

func intsToBytes(xs []int) []byte {
	b := make([]byte, len(xs))
	for i, x := range xs {
		b[i] = byte(x)
	}
	return b
}
