//go:build verif

package props

import (
	"fmt"
	"strings"
	"sync"

	"github.com/krotik/ecal/engine"
	"github.com/krotik/ecal/interpreter"
	"github.com/krotik/ecal/parser"
	"github.com/krotik/ecal/scope"
	"github.com/krotik/ecal/stdlib"
	"github.com/krotik/ecal/util"
)

// ---- an ECAL interpreter instance for the drivers ------------------------------------------------------

type ecalEnv struct {
	erp *interpreter.ECALRuntimeProvider
	vs  parser.Scope
}

// goFunc adapts a Go closure to util.ECALFunction.
type goFunc struct {
	f func(tid uint64, args []interface{}) (interface{}, error)
}

func (g *goFunc) Run(instanceID string, vs parser.Scope, is map[string]interface{}, tid uint64, args []interface{}) (interface{}, error) {
	return g.f(tid, args)
}
func (g *goFunc) DocString() (string, error) { return "verification harness function", nil }

var verifFuncs sync.Map // name -> func(tid, args) (interface{}, error): current binding of verif.<name>
var verifPkgOnce sync.Once

// bindVerif (re)binds the ECAL function verif.<name> to f. The stdlib registry is global, so the
// registered object dispatches to the current binding.
func bindVerif(name string, f func(tid uint64, args []interface{}) (interface{}, error)) {
	verifPkgOnce.Do(func() { stdlib.AddStdlibPkg("verif", "verification harness") })
	if _, ok := verifFuncs.Load(name); !ok {
		n := name
		stdlib.AddStdlibFunc("verif", n, &goFunc{func(tid uint64, args []interface{}) (interface{}, error) {
			if cur, ok := verifFuncs.Load(n); ok && cur != nil {
				return cur.(func(uint64, []interface{}) (interface{}, error))(tid, args)
			}
			return nil, nil
		}})
	}
	verifFuncs.Store(name, f)
}

func newEcalEnv(workers int) *ecalEnv {
	erp := interpreter.NewECALRuntimeProvider("verif", nil, util.NewMemoryLogger(1000))
	erp.Cron.Stop()
	if workers > 0 {
		erp.Processor = engine.NewProcessor(workers)
		erp.Processor.SetFailOnFirstErrorInTriggerSequence(true)
	}
	erp.Processor.ThreadPool().TooManyCallback = func() {}
	return &ecalEnv{erp: erp, vs: scope.NewScope(scope.GlobalScope)}
}

// parse parses and validates a source text.
func (e *ecalEnv) parse(src string) (*parser.ASTNode, error) {
	ast, err := parser.ParseWithRuntime("verif", src, e.erp)
	if err != nil {
		return nil, err
	}
	if err := ast.Runtime.Validate(); err != nil {
		return nil, err
	}
	return ast, nil
}

// run parses, validates and evaluates a source text in the global scope with a new thread id.
func (e *ecalEnv) run(src string) (interface{}, error) {
	ast, err := e.parse(src)
	if err != nil {
		return nil, err
	}
	return ast.Runtime.Eval(e.vs, make(map[string]interface{}), e.erp.NewThreadID())
}

// runSafe is run with a recover: a panic is returned as a fault description.
func (e *ecalEnv) runSafe(src string) (res interface{}, err error, fault string) {
	defer func() {
		if r := recover(); r != nil {
			fault = fmt.Sprint(r)
		}
	}()
	res, err = e.run(src)
	return
}

func (e *ecalEnv) logs() []string {
	return e.erp.Logger.(*util.MemoryLogger).Slice()
}

func (e *ecalEnv) close() {
	if !e.erp.Processor.Stopped() {
		e.erp.Processor.Finish()
	}
}

// errType extracts the ECAL error type text of an evaluation error ("" if none).
func errType(err error) string {
	switch x := err.(type) {
	case nil:
		return ""
	case *util.RuntimeError:
		return x.Type.Error()
	case *util.RuntimeErrorWithDetail:
		return x.Type.Error()
	}
	return "?" + strings.SplitN(err.Error(), "\n", 2)[0]
}

// ecalQuote renders a Go string as an ECAL quoted string literal.
func ecalQuote(s string) string {
	var b strings.Builder
	b.WriteByte('"')
	for _, c := range s {
		switch c {
		case '"':
			b.WriteString(`\"`)
		case '\\':
			b.WriteString(`\\`)
		case '\n':
			b.WriteString(`\n`)
		default:
			b.WriteRune(c)
		}
	}
	b.WriteByte('"')
	return b.String()
}
