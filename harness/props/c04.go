//go:build verif

package props

import (
	"fmt"
	"math/rand"
	"strings"
	"sync"
	"time"

	"github.com/krotik/ecal/verifhook"

	"verif/harness/ev"
)

// cfStmt is a statement of the abstract programs of ControlFlow.tla (all fields always present so that
// TLC can read every record).
type cfStmt struct {
	K        string     `json:"k"`
	M        int        `json:"m"`
	Var      string     `json:"var"`
	E        cfExpr     `json:"e"`
	Guards   []cfGuard  `json:"guards"`
	C        cfCond     `json:"c"`
	B        []*cfStmt  `json:"b"`
	From     int        `json:"from"`
	To       int        `json:"to"`
	Step     int        `json:"step"`
	Vals     []int      `json:"vals"`
	Keys     [][]int    `json:"keys"`
	N        int        `json:"n"`
	Ty       string     `json:"ty"`
	F        int        `json:"f"`
	Excepts  []cfExcept `json:"excepts"`
	HasOther bool       `json:"hasother"`
	Other    []*cfStmt  `json:"other"`
	HasFin   bool       `json:"hasfin"`
	Fin      []*cfStmt  `json:"fin"`
	keyTexts []string
}

type cfExpr struct {
	T   string `json:"t"`
	N   int    `json:"n"`
	Var string `json:"var"`
}

type cfCond struct {
	T   string `json:"t"`
	B   bool   `json:"b"`
	Var string `json:"var"`
	Op  string `json:"op"`
	N   int    `json:"n"`
}

type cfGuard struct {
	C cfCond    `json:"c"`
	B []*cfStmt `json:"b"`
}

type cfExcept struct {
	Types []string  `json:"types"`
	As    bool      `json:"as"`
	B     []*cfStmt `json:"b"`
}

type cfProg struct {
	Body  []*cfStmt   `json:"body"`
	Funcs [][]*cfStmt `json:"funcs"`
}

func newStmt(k string) *cfStmt {
	return &cfStmt{K: k, Guards: []cfGuard{}, B: []*cfStmt{}, Vals: []int{}, Keys: [][]int{}, Excepts: []cfExcept{},
		Other: []*cfStmt{}, Fin: []*cfStmt{}, E: cfExpr{T: "const"}, C: cfCond{T: "const"}}
}

type cfGen struct {
	rng     *rand.Rand
	marker  int
	counter int
	nfuncs  int
	inits   []string // counter variables to initialise at the top
}

func (g *cfGen) mark() *cfStmt {
	g.marker++
	s := newStmt("mark")
	s.M = g.marker
	return s
}

var cfErrTypes = []string{"A", "B", "C"}

// block generates a statement list. inLoop / inFunc say which exits are meaningful here.
func (g *cfGen) block(depth int, inLoop, inFunc bool, callable int) []*cfStmt {
	n := 1 + g.rng.Intn(3)
	var out []*cfStmt
	for i := 0; i < n; i++ {
		out = append(out, g.stmt(depth, inLoop, inFunc, callable))
	}
	return out
}

func (g *cfGen) cond(loopVar string) cfCond {
	if loopVar != "" && g.rng.Intn(2) == 0 {
		return cfCond{T: "cmp", Var: loopVar, Op: []string{"<", "==", ">"}[g.rng.Intn(3)], N: g.rng.Intn(4)}
	}
	return cfCond{T: "const", B: g.rng.Intn(2) == 0}
}

func (g *cfGen) stmt(depth int, inLoop, inFunc bool, callable int) *cfStmt {
	r := g.rng
	// exits
	if depth == 0 || r.Intn(3) == 0 {
		switch r.Intn(9) {
		case 0:
			if inLoop {
				return newStmt("break")
			}
		case 1:
			if inLoop {
				return newStmt("continue")
			}
		case 2:
			if inFunc {
				s := newStmt("return")
				s.N = 100 + r.Intn(50)
				return s
			}
		case 3:
			s := newStmt("raise")
			s.Ty = cfErrTypes[r.Intn(len(cfErrTypes))]
			return s
		case 4:
			if r.Intn(2) == 0 {
				return newStmt("rterr")
			}
		case 5:
			if callable > 0 {
				s := newStmt("callmark")
				s.F = 1 + r.Intn(callable)
				return s
			}
		}
		return g.mark()
	}
	switch r.Intn(8) {
	case 0: // if / elif / else
		s := newStmt("if")
		ng := 1 + r.Intn(3)
		for i := 0; i < ng; i++ {
			s.Guards = append(s.Guards, cfGuard{C: g.cond(""), B: g.block(depth-1, inLoop, inFunc, callable)})
		}
		if r.Intn(2) == 0 { // else
			s.Guards = append(s.Guards, cfGuard{C: cfCond{T: "const", B: true}, B: g.block(depth-1, inLoop, inFunc, callable)})
		}
		return s
	case 1: // guard loop with a counter which is incremented first
		g.counter++
		v := fmt.Sprintf("c%d", g.counter)
		g.inits = append(g.inits, v)
		s := newStmt("loopguard")
		s.C = cfCond{T: "cmp", Var: v, Op: "<", N: 1 + r.Intn(3)}
		inc := newStmt("assign")
		inc.Var = v
		inc.E = cfExpr{T: "add", Var: v, N: 1}
		s.B = append([]*cfStmt{inc}, g.loopBody(depth-1, v, inFunc, callable)...)
		return s
	case 2: // range loop
		g.counter++
		v := fmt.Sprintf("i%d", g.counter)
		s := newStmt("looprange")
		s.Var = v
		switch r.Intn(4) {
		case 0:
			s.From, s.To, s.Step = 1, 1+r.Intn(3), 1
		case 1:
			s.From, s.To, s.Step = 3, 1+r.Intn(3), -1
		case 2:
			s.From, s.To, s.Step = 0, 4, 2
		default:
			s.From, s.To, s.Step = 2, 2, 1 // a range of one element (inclusive end)
		}
		s.B = g.loopBody(depth-1, v, inFunc, callable)
		return s
	case 3: // list loop
		g.counter++
		v := fmt.Sprintf("l%d", g.counter)
		s := newStmt("looplist")
		s.Var = v
		for i, n := 0, r.Intn(4); i < n; i++ {
			s.Vals = append(s.Vals, r.Intn(4))
		}
		s.B = g.loopBody(depth-1, v, inFunc, callable)
		return s
	case 4: // map loop: keys in string order; the loop variable holds the index of the key
		g.counter++
		v := fmt.Sprintf("m%d", g.counter)
		s := newStmt("loopmap")
		s.Var = v
		pool := []string{"b", "a", "c", "10", "9", "ab", "B"}
		perm := r.Perm(len(pool))
		for i, n := 0, 1+r.Intn(4); i < n; i++ {
			s.keyTexts = append(s.keyTexts, pool[perm[i]])
			s.Keys = append(s.Keys, bytesOf(pool[perm[i]]))
		}
		s.B = g.loopBody(depth-1, v, inFunc, callable)
		return s
	default: // try
		s := newStmt("try")
		s.B = g.block(depth-1, inLoop, inFunc, callable)
		ne := r.Intn(3)
		for i := 0; i < ne; i++ {
			ex := cfExcept{Types: []string{}, As: r.Intn(2) == 0}
			switch r.Intn(4) {
			case 0: // bare
			case 1:
				ex.Types = []string{cfErrTypes[r.Intn(3)]}
			case 2:
				ex.Types = []string{cfErrTypes[r.Intn(3)], "Operand is not a number"}
			default:
				ex.Types = []string{cfErrTypes[r.Intn(3)], cfErrTypes[r.Intn(3)]}
			}
			ex.B = g.block(depth-1, inLoop, inFunc, callable)
			s.Excepts = append(s.Excepts, ex)
		}
		if r.Intn(2) == 0 {
			s.HasOther = true
			s.Other = g.block(depth-1, inLoop, inFunc, callable)
		}
		if r.Intn(2) == 0 {
			s.HasFin = true
			s.Fin = []*cfStmt{g.mark()} // finally only marks (what it signals itself is unconstrained)
		}
		return s
	}
}

func (g *cfGen) loopBody(depth int, v string, inFunc bool, callable int) []*cfStmt {
	body := g.block(depth, true, inFunc, callable)
	if g.rng.Intn(2) == 0 {
		// a guard on the loop variable with an exit
		s := newStmt("if")
		ex := newStmt([]string{"break", "continue"}[g.rng.Intn(2)])
		s.Guards = []cfGuard{{C: g.cond(v), B: []*cfStmt{g.mark(), ex}}}
		body = append([]*cfStmt{s}, body...)
	}
	// show the loop variable in the log
	return body
}

// ---- rendering to ECAL -----------------------------------------------------------------------------

func renderCond(c cfCond) string {
	if c.T == "const" {
		if c.B {
			return "true"
		}
		return "false"
	}
	return fmt.Sprintf("%s %s %d", c.Var, c.Op, c.N)
}

func renderBlock(b []*cfStmt, ind string) string {
	var sb strings.Builder
	for _, s := range b {
		sb.WriteString(renderStmt(s, ind))
	}
	return sb.String()
}

func renderStmt(s *cfStmt, ind string) string {
	in2 := ind + "    "
	switch s.K {
	case "mark":
		return fmt.Sprintf("%sverif.mark(%d)\n", ind, s.M)
	case "assign":
		if s.E.T == "const" {
			return fmt.Sprintf("%s%s := %d\n", ind, s.Var, s.E.N)
		}
		return fmt.Sprintf("%s%s := %s + %d\n", ind, s.Var, s.E.Var, s.E.N)
	case "if":
		var sb strings.Builder
		for i, g := range s.Guards {
			switch {
			case i == 0:
				fmt.Fprintf(&sb, "%sif %s {\n", ind, renderCond(g.C))
			case i == len(s.Guards)-1 && g.C.T == "const" && g.C.B:
				fmt.Fprintf(&sb, "%s} else {\n", ind)
			default:
				fmt.Fprintf(&sb, "%s} elif %s {\n", ind, renderCond(g.C))
			}
			sb.WriteString(renderBlock(g.B, in2))
		}
		fmt.Fprintf(&sb, "%s}\n", ind)
		return sb.String()
	case "loopguard":
		return fmt.Sprintf("%sfor %s {\n%s%s}\n", ind, renderCond(s.C), renderBlock(s.B, in2), ind)
	case "looprange":
		return fmt.Sprintf("%sfor %s in range(%d, %d, %d) {\n%s%s}\n", ind, s.Var, s.From, s.To, s.Step, renderBlock(s.B, in2), ind)
	case "looplist":
		var vs []string
		for _, v := range s.Vals {
			vs = append(vs, fmt.Sprint(v))
		}
		return fmt.Sprintf("%sfor %s in [%s] {\n%s%s}\n", ind, s.Var, strings.Join(vs, ", "), renderBlock(s.B, in2), ind)
	case "loopmap":
		// map literal key -> index (1-based); the loop binds [key, value] and the program uses the value
		var kv []string
		for i, k := range s.keyTexts {
			if k == "10" || k == "9" {
				kv = append(kv, fmt.Sprintf("%s : %d", k, i+1))
			} else {
				kv = append(kv, fmt.Sprintf("%s : %d", ecalQuote(k), i+1))
			}
		}
		// (a map literal cannot stand in the loop header: the brace would start the block)
		return fmt.Sprintf("%s%smap := {%s}\n%sfor [%sk, %s] in %smap {\n%s%s}\n", ind, s.Var, strings.Join(kv, ", "), ind, s.Var, s.Var, s.Var, renderBlock(s.B, in2), ind)
	case "break":
		return ind + "break\n"
	case "continue":
		return ind + "continue\n"
	case "return":
		return fmt.Sprintf("%sreturn %d\n", ind, s.N)
	case "raise":
		return fmt.Sprintf("%sraise(%s, \"detail\")\n", ind, ecalQuote(s.Ty))
	case "rterr":
		return ind + "zz := 1 + \"a\"\n"
	case "callmark":
		return fmt.Sprintf("%sverif.mark(f%d())\n", ind, s.F)
	case "try":
		var sb strings.Builder
		fmt.Fprintf(&sb, "%stry {\n%s%s}", ind, renderBlock(s.B, in2), ind)
		for _, ex := range s.Excepts {
			sb.WriteString(" except ")
			var ts []string
			for _, t := range ex.Types {
				ts = append(ts, ecalQuote(t))
			}
			sb.WriteString(strings.Join(ts, ", "))
			if ex.As {
				if len(ts) > 0 {
					sb.WriteString(" as e ")
				} else {
					sb.WriteString("e ")
				}
			} else if len(ts) > 0 {
				sb.WriteString(" ")
			}
			fmt.Fprintf(&sb, "{\n%s%s}", renderBlock(ex.B, in2), ind)
		}
		if s.HasOther {
			fmt.Fprintf(&sb, " otherwise {\n%s%s}", renderBlock(s.Other, in2), ind)
		}
		if s.HasFin {
			fmt.Fprintf(&sb, " finally {\n%s%s}", renderBlock(s.Fin, in2), ind)
		}
		sb.WriteString("\n")
		return sb.String()
	}
	return ind + "# ?\n"
}

type cfRec struct {
	Src   string  `json:"src"`
	Prog  *cfProg `json:"prog"`
	Log   []int   `json:"log"`
	Res   string  `json:"res"`
	Ty    string  `json:"ty"`
	Fault string  `json:"fault"`
}

func genCfProg(rng *rand.Rand) (*cfProg, string) {
	g := &cfGen{rng: rng}
	p := &cfProg{Funcs: [][]*cfStmt{}}
	nf := rng.Intn(3)
	var fsrc strings.Builder
	for f := 1; f <= nf; f++ {
		body := g.block(1+rng.Intn(2), false, true, f-1)
		p.Funcs = append(p.Funcs, body)
		fmt.Fprintf(&fsrc, "func f%d() {\n%s}\n", f, renderBlock(body, "    "))
	}
	p.Body = g.block(2+rng.Intn(2), false, false, nf)
	var src strings.Builder
	for _, v := range g.inits {
		fmt.Fprintf(&src, "%s := 0\n", v)
	}
	src.WriteString(fsrc.String())
	src.WriteString(renderBlock(p.Body, ""))
	return p, src.String()
}

var cfMarkMu sync.Mutex
var cfMarkLog []int

// runCfProg evaluates a rendered program on the real interpreter.
func runCfProg(p *cfProg, src string) *cfRec {
	rec := &cfRec{Src: src, Prog: p, Log: []int{}}
	cfMarkMu.Lock()
	cfMarkLog = nil
	cfMarkMu.Unlock()
	env := newEcalEnv(1)
	var err error
	pm, hung := guarded(10*time.Second, func() { _, err = env.run(src) })
	cfMarkMu.Lock()
	rec.Log = append([]int{}, cfMarkLog...)
	cfMarkMu.Unlock()
	switch {
	case pm != "" || hung != "":
		rec.Fault = pm + hung
	case err != nil:
		rec.Res = "error"
		rec.Ty = errType(err)
	default:
		rec.Res = "normal"
	}
	return rec
}

func bindMark() {
	bindVerif("mark", func(tid uint64, args []interface{}) (interface{}, error) {
		v := -1
		if len(args) > 0 {
			if f, ok := args[0].(float64); ok {
				v = int(f)
			}
		}
		cfMarkMu.Lock()
		cfMarkLog = append(cfMarkLog, v)
		cfMarkMu.Unlock()
		return nil, nil
	})
}

// C04 is the driver of property C04.
func C04(r *ev.Run) {
	tier := r.Tier
	rng := rand.New(rand.NewSource(r.Seed))
	verifhook.Set(func(string, ...interface{}) {})
	bindMark()
	r.Assume("return outside a function, break/continue outside a loop, signals raised inside finally and loops whose step moves away from the end are not generated (unconstrained or user-made non-termination)")
	n := pick(tier, 4000, 40000)
	var trace []interface{}
	var recs []*cfRec
	for k := 0; k < n; k++ {
		p, src := genCfProg(rng)
		rec := runCfProg(p, src)
		recs = append(recs, rec)
		trace = append(trace, rec)
		r.Case(src, strings.Count(src, "\n") > 4)
	}
	r.Sample(map[string]interface{}{"source": recs[0].Src, "log": recs[0].Log, "result": recs[0].Res + " " + recs[0].Ty})
	runDirected(r, "C04")
	bad, ok := validateTrace(r, "Flow_Trace", "Flow_Trace.cfg", trace, 60*time.Minute)
	if !ok {
		return
	}
	badRecs := map[int]bool{}
	for _, code := range bad {
		idx, clause := code/10, code%10
		badRecs[idx] = true
		rec := recs[idx-1]
		sig := cfSignature(rec, clause)
		r.Violation(sig, fmt.Sprintf("clause %d of Flow_Trace: log=%v result=%s %s fault=%s\n%s", clause, rec.Log, rec.Res, rec.Ty, rec.Fault, rec.Src), rec)
	}
	r.AddTraces(int64(len(recs) - len(badRecs)))
	r.Set("programs", len(recs))
}

// cfSignature classifies a control-flow mismatch by the constructs involved (coarse, for known findings).
func cfSignature(rec *cfRec, clause int) string {
	if clause == 3 {
		return "C04 fault " + firstWords(rec.Fault, 6)
	}
	src := rec.Src
	switch {
	case rec.Res == "error" && rec.Ty == "End of iteration was reached":
		return "C04 break escapes as an error"
	case strings.Contains(src, "range(2, 2, 1)"):
		return "C04 mismatch in a program with a one-element range"
	}
	return "C04 control flow differs from the reference"
}
