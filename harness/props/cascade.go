//go:build verif

package props

import (
	"fmt"
	"math/rand"
	"sort"
	"strings"
	"sync"
	"sync/atomic"
	"time"

	"github.com/krotik/ecal/engine"
	"github.com/krotik/ecal/verifhook"

	"verif/harness/sched"
)

// ---- abstract cascade programs (shared by C02 and C10) -------------------------------------------

// CAdd is a child event a rule action adds under a new child monitor.
type CAdd struct {
	Kind string `json:"kind"`
	Prio int    `json:"prio"`
}

// CRule is one rule of a cascade program.
type CRule struct {
	Name string `json:"name"`
	Kind string `json:"kind"`
	Prio int    `json:"prio"`
	Fail bool   `json:"fail"`
	Adds []CAdd `json:"adds,omitempty"`
	HP   bool   `json:"hp,omitempty"` // sample RootMonitor.HighestPriority() inside the action
}

// CProg is a cascade program: rules, root events (one waiting client each), configuration.
type CProg struct {
	Name     string   `json:"name"`
	Rules    []CRule  `json:"rules"`
	Roots    []string `json:"roots"` // kinds of the root events; client c<i> adds Roots[i] with wait semantics
	Workers  int      `json:"workers"`
	FailFast bool     `json:"failfast"`
	ErrObs   bool     `json:"errobs,omitempty"` // install a root monitor error observer which reads AllErrors()
}

var cascadeGates = map[string]bool{
	"pool.worker.head": true, "pool.getTask.kill": true, "pool.getTask.pop": true, "pool.idle.reg": true,
	"pool.idle.afterWake":   true,
	"pool.setWorkers.grown": true, "pool.setWorkers.idleWait": true,
	"task.run.start": true, "task.run.failed": true, "task.run.end": true,
	"task.handleError.set": true, "task.handleError.finished": true, "task.handleError.notified": true,
	"mon.finished.unlocked": true, "mon.posted": true, "proc.wait.observer": true, "proc.wait.return": true,
	"proc.finishHandler": true, "rule.start": true, "rule.end": true, "rule.added": true, "client.op": true,
}

var cascadePollGates = map[string]bool{"pool.setWorkers.idleWait": true}

type cascadeRun struct {
	prog   *CProg
	s      *sched.Scheduler
	proc   engine.Processor
	evctr  int64
	mu     sync.Mutex
	mons   []engine.Monitor
	closed int32
	panics []string
	align  bool  // free runs: actions meet at a spin barrier so that engine calls collide in time
	arrive int32 // arrivals at the barrier
}

// meet lets goroutines that arrive within a short window proceed at the same instant (free runs only):
// unsynchronised engine state is then touched truly in parallel instead of by accident.
func (cr *cascadeRun) meet() {
	if !cr.align {
		return
	}
	n := atomic.AddInt32(&cr.arrive, 1)
	deadline := time.Now().Add(150 * time.Microsecond)
	for atomic.LoadInt32(&cr.arrive) == n && time.Now().Before(deadline) {
	}
}

type cascadeResult struct {
	Outcome *sched.Outcome
	P       []interface{}
	Err     error
	Hung    bool
	Panics  []string
	NotFin  []uint64
	Stuck   bool
}

func kindOf(k string) []string { return strings.Split(k, ".") }

func (cr *cascadeRun) newEvent(kind string) *engine.Event {
	n := atomic.AddInt64(&cr.evctr, 1)
	return engine.NewEvent(fmt.Sprintf("e%d", n), kindOf(kind), map[interface{}]interface{}{})
}

func (cr *cascadeRun) track(m engine.Monitor) {
	cr.mu.Lock()
	cr.mons = append(cr.mons, m)
	cr.mu.Unlock()
}

func newCascadeRun(prog *CProg, controlled bool) *cascadeRun {
	cr := &cascadeRun{prog: prog, s: sched.New(controlled)}
	cr.s.IsGate = func(p string, a []interface{}) bool { return cascadeGates[p] }
	cr.s.NameOf = func(p string, a []interface{}) string {
		if p == "pool.worker.head" {
			return fmt.Sprintf("w%v", a[0])
		}
		return ""
	}
	verifhook.Set(cr.s.Handle)
	cr.proc = engine.NewProcessor(prog.Workers)
	cr.proc.ThreadPool().TooManyCallback = func() {}
	// the error behaviour can be set at any time: every second program configures it on the started processor
	// (and starts with the opposite setting)
	lateConfig := len(prog.Rules)%2 == 1
	cr.proc.SetFailOnFirstErrorInTriggerSequence(prog.FailFast != lateConfig)
	if prog.ErrObs {
		cr.proc.SetRootMonitorErrorObserver(func(rm *engine.RootMonitor) {
			defer func() {
				if r := recover(); r != nil {
					cr.mu.Lock()
					cr.panics = append(cr.panics, fmt.Sprint("error observer: ", r))
					cr.mu.Unlock()
				}
			}()
			errs := rm.AllErrors()
			cr.s.Record("p.errobs", rm.ID(), len(errs))
		})
	}
	for i := range prog.Rules {
		rule := prog.Rules[i]
		// candidates which are dropped before the rules of an event are ordered: every third rule names its kind
		// twice (the second occurrence is dropped), and for every second rule a decoy with the
		// lowest priority number stands in front of it which is outside the scope of the cascades
		kinds := []string{rule.Kind}
		if i%3 == 1 {
			kinds = []string{rule.Kind, rule.Kind}
		}
		if i%2 == 0 {
			decoy := "decoy-" + rule.Name
			if derr := cr.proc.AddRule(&engine.Rule{Name: decoy, Desc: "", KindMatch: []string{rule.Kind}, ScopeMatch: []string{"forbidden.zone"}, StateMatch: nil, Priority: 0,
				Action: func(p engine.Processor, m engine.Monitor, e *engine.Event, tid uint64) error {
					cr.mu.Lock()
					cr.panics = append(cr.panics, "rule outside the scope of the cascade fired: "+decoy)
					cr.mu.Unlock()
					return nil
				}}); derr != nil {
				panic(derr)
			}
		}
		err := cr.proc.AddRule(&engine.Rule{
			Name: rule.Name, Desc: "", KindMatch: kinds, ScopeMatch: []string{}, StateMatch: nil,
			Priority: rule.Prio, SuppressionList: nil,
			Action: func(p engine.Processor, m engine.Monitor, e *engine.Event, tid uint64) error {
				cr.s.Gate("rule.start", m.ID(), rule.Name)
				for _, ad := range rule.Adds {
					if atomic.LoadInt32(&cr.closed) != 0 {
						break
					}
					cr.meet()
					child := m.NewChildMonitor(ad.Prio)
					cr.track(child)
					cr.s.Record("p.child", m.ID(), child.ID(), ad.Prio, ad.Kind)
					res, err := p.AddEvent(cr.newEvent(ad.Kind), child)
					cr.s.Gate("rule.added", child.ID(), res != nil, err == nil)
				}
				if rule.HP {
					cr.s.Record("p.hp", m.RootMonitor().ID(), m.RootMonitor().HighestPriority())
				}
				cr.s.Gate("rule.end", m.ID(), rule.Name, rule.Fail)
				cr.meet()
				if rule.Fail {
					return fmt.Errorf("fail:%s", rule.Name)
				}
				return nil
			},
		})
		if err != nil {
			panic(err)
		}
	}
	started := make(chan struct{})
	for i := range prog.Roots {
		i := i
		kind := prog.Roots[i]
		cr.s.Spawn(fmt.Sprintf("c%d", i+1), func() {
			if i == 0 {
				cr.proc.Start()
				if lateConfig {
					cr.proc.SetFailOnFirstErrorInTriggerSequence(prog.FailFast)
				}
				close(started)
			} else {
				<-started
			}
			if atomic.LoadInt32(&cr.closed) != 0 {
				return
			}
			cr.s.Gate("client.op", i+1)
			root := cr.proc.NewRootMonitor(nil, engine.NewRuleScope(map[string]bool{"": true, "forbidden": false}))
			cr.track(root)
			root.SetFinishHandler(func(p engine.Processor) {
				// what a handler is for: the cascade has ended, look at its monitor (errors, remaining priorities)
				n := len(root.AllErrors())
				hp := root.HighestPriority()
				cr.s.Record("p.handler", root.ID(), n, hp)
			})
			cr.s.Record("p.root", root.ID(), kind)
			res, err := cr.proc.AddEventAndWait(cr.newEvent(kind), root)
			// the error report of the cascade
			var pairs [][]interface{}
			for _, te := range root.AllErrors() {
				var names []string
				for n := range te.ErrorMap {
					names = append(names, n)
				}
				sort.Strings(names)
				for _, n := range names {
					pairs = append(pairs, []interface{}{int(te.Monitor.ID()), n})
				}
			}
			cr.s.Record("p.waitret", root.ID(), res != nil, err == nil, pairs)
		})
	}
	return cr
}

func (cr *cascadeRun) finish(out *sched.Outcome, err error) *cascadeResult {
	res := &cascadeResult{Outcome: out, Err: err}
	var clients []string
	for i := range cr.prog.Roots {
		clients = append(clients, fmt.Sprintf("c%d", i+1))
	}
	if out != nil && out.Final != nil {
		for _, c := range clients {
			if ts, ok := out.Final.Get(c); ok && !ts.Done {
				res.Hung = true
			}
		}
	}
	cr.mu.Lock()
	for _, m := range cr.mons {
		if f, ok := m.(interface{ IsFinished() bool }); ok && !f.IsFinished() {
			res.NotFin = append(res.NotFin, m.ID())
		}
	}
	res.Panics = append(res.Panics, cr.panics...)
	cr.mu.Unlock()
	res.P = cascadeProject(cr.prog, cr.s.Events())
	res.P = append(res.P, crec("final", 0, 0, 0, 0, "", "", res.Hung || len(res.NotFin) > 0, 0, nil))
	atomic.StoreInt32(&cr.closed, 1)
	verifhook.Set(func(string, ...interface{}) {})
	cr.s.OpenAll()
	t0 := time.Now()
	cr.s.WaitDone(clients, 2*time.Second)
	done := make(chan struct{})
	go func() { cr.proc.ThreadPool().SetWorkerCount(0, false); close(done) }()
	select {
	case <-done:
	case <-time.After(2 * time.Second):
	}
	res.Stuck = time.Since(t0) > 1500*time.Millisecond // the clean-up ran into its bounds: something of the run never ends
	return res
}

func crec(ev string, r, m, par, p int, k, rule string, b bool, v int, errs [][]interface{}) map[string]interface{} {
	if errs == nil {
		errs = [][]interface{}{}
	}
	return map[string]interface{}{"ev": ev, "r": r, "m": m, "par": par, "p": p, "k": k, "rule": rule, "b": b, "v": v, "errs": errs, "rules": []interface{}{}}
}

// cascadeProject turns the raw record into the property-level events of CascadeP_Trace.
func cascadeProject(prog *CProg, evs []sched.Event) []interface{} {
	var out []interface{}
	var rules []interface{}
	for _, r := range prog.Rules {
		rules = append(rules, map[string]interface{}{"name": r.Name, "kind": r.Kind, "prio": r.Prio, "fail": r.Fail})
	}
	hdr := crec("prog", 0, 0, 0, 0, prog.Name, "", prog.FailFast, 0, nil)
	hdr["rules"] = rules
	out = append(out, hdr)
	pendingMon := map[string]int{} // thread -> monitor it is currently adding (between child/root and AddEvent's return)
	gi := func(x interface{}) int { return x.(int) }
	for _, e := range evs {
		a := e.Args
		switch e.Point {
		case "p.root":
			out = append(out, crec("root", gi(a[0]), gi(a[0]), 0, 0, a[1].(string), "", false, 0, nil))
			pendingMon[e.Th] = gi(a[0])
		case "p.child":
			out = append(out, crec("child", 0, gi(a[1]), gi(a[0]), gi(a[2]), a[3].(string), "", false, 0, nil))
			pendingMon[e.Th] = gi(a[1])
		case "mon.activated":
			if m, ok := pendingMon[e.Th]; ok {
				out = append(out, crec("activate", gi(a[0]), m, 0, gi(a[1]), "", "", false, 0, nil))
			}
		case "proc.addEvent.skip":
			if m, ok := pendingMon[e.Th]; ok {
				out = append(out, crec("skipped", 0, m, 0, 0, "", "", false, 0, nil))
			}
		case "tq.push":
			out = append(out, crec("push", gi(a[0]), gi(a[2]), 0, gi(a[1]), "", "", false, 0, nil))
		case "tq.pop":
			out = append(out, crec("pop", gi(a[0]), gi(a[2]), 0, gi(a[1]), "", "", false, 0, nil))
		case "rule.start":
			out = append(out, crec("rstart", 0, gi(a[0]), 0, 0, "", a[1].(string), false, 0, nil))
		case "rule.end":
			out = append(out, crec("rend", 0, gi(a[0]), 0, 0, "", a[1].(string), a[2].(bool), 0, nil))
		case "p.hp":
			out = append(out, crec("hp", gi(a[0]), 0, 0, 0, "", "", false, gi(a[1]), nil))
		case "mon.finished.locked":
			out = append(out, crec("finished", gi(a[0]), gi(a[1]), 0, 0, "", "", a[3].(bool), gi(a[2]), nil))
		case "p.handler":
			out = append(out, crec("handler", gi(a[0]), 0, 0, 0, "", "", false, 0, nil))
		case "p.waitret":
			pairs, _ := a[3].([][]interface{})
			out = append(out, crec("waitret", gi(a[0]), 0, 0, 0, "", "", a[1].(bool), 0, pairs))
		}
	}
	return out
}

func runCascadeExplore(prog *CProg, ch sched.Chooser) *cascadeResult {
	cr := newCascadeRun(prog, true)
	out, err := cr.s.Run(ch, 20000, func(p string) bool { return cascadePollGates[p] })
	return cr.finish(out, err)
}

func runCascadeFree(prog *CProg) *cascadeResult {
	cr := newCascadeRun(prog, false)
	cr.align = true
	deadline := time.Now().Add(20 * time.Second)
	var st *sched.Stable
	var err error
	for {
		st, err = cr.s.WaitStable()
		if err != nil {
			break
		}
		settled := true
		for _, t := range st.Threads {
			if !t.Done && t.Wait != "sync.Cond.Wait" {
				settled = false
			}
		}
		if settled {
			break
		}
		if time.Now().After(deadline) {
			// clients blocked for ever in WaitGroup.Wait with idle workers: report as hung, not as a timeout
			allBlocked := true
			for _, t := range st.Threads {
				if !t.Done && t.Wait == "" {
					allBlocked = false
				}
			}
			if !allBlocked {
				err = sched.ErrTimeout
			}
			break
		}
		time.Sleep(100 * time.Microsecond)
	}
	return cr.finish(&sched.Outcome{Final: st}, err)
}

// ---- program generators ------------------------------------------------------------------------------

// randomCascade builds a layered program: kinds L<d>.<i>; a rule of layer d adds events of layer d+1
// (or of the never-matching kind "none.x"), so every cascade terminates.
func randomCascade(rng *rand.Rand, name string, maxDepth, maxRulesPerKind, maxAdds, maxPrio, workers int) *CProg {
	p := &CProg{Name: name, Workers: workers, FailFast: rng.Intn(2) == 0}
	kindsAt := func(d int) []string {
		n := 1 + rng.Intn(2)
		var ks []string
		for i := 0; i < n; i++ {
			ks = append(ks, fmt.Sprintf("L%d.k%d", d, i))
		}
		return ks
	}
	layers := [][]string{}
	for d := 0; d <= maxDepth; d++ {
		layers = append(layers, kindsAt(d))
	}
	rc := 0
	for d, ks := range layers {
		for _, k := range ks {
			nr := 1 + rng.Intn(maxRulesPerKind)
			for j := 0; j < nr; j++ {
				rc++
				r := CRule{Name: fmt.Sprintf("r%d", rc), Kind: k, Prio: rng.Intn(maxPrio + 1), Fail: rng.Intn(4) == 0, HP: rng.Intn(2) == 0}
				if d < maxDepth {
					na := rng.Intn(maxAdds + 1)
					for a := 0; a < na; a++ {
						var kind string
						if rng.Intn(5) == 0 {
							kind = "none.x"
						} else {
							nx := layers[d+1]
							kind = nx[rng.Intn(len(nx))]
						}
						r.Adds = append(r.Adds, CAdd{Kind: kind, Prio: rng.Intn(maxPrio + 1)})
					}
				}
				p.Rules = append(p.Rules, r)
			}
		}
	}
	nroots := 1 + rng.Intn(3)
	for i := 0; i < nroots; i++ {
		if i > 0 && rng.Intn(4) == 0 {
			p.Roots = append(p.Roots, "none.x") // a waiting call whose root event triggers nothing
		} else {
			p.Roots = append(p.Roots, layers[0][rng.Intn(len(layers[0]))])
		}
	}
	return p
}
