//go:build verif

package props

import (
	"bufio"
	"encoding/json"
	"fmt"
	"math/rand"
	"os"
	"os/exec"
	"regexp"
	"strings"
	"sync"
	"sync/atomic"
	"time"

	"github.com/krotik/ecal/interpreter"
	"github.com/krotik/ecal/parser"
	"github.com/krotik/ecal/scope"
	"github.com/krotik/ecal/util"
	"github.com/krotik/ecal/verifhook"

	"verif/harness/ev"
	"verif/harness/sched"
	"verif/harness/tlc"
)

func init() { childModes["c13free"] = c13FreeChild }

var c13Texts = map[string]string{
	"ifp":  "if a { b := 1 }",
	"forp": "for a > 0 { b := 1 }",
	"mapp": "a := {1:2}",
}

var c13Corpus = []string{
	"IF a { b := 1 } ELIF c { d := 2 } ELSE { e := 3 }",
	"For a > 0 { Break }\nfOR [k, v] IN m { Continue }",
	"Try { raise(\"E\") } Except \"E\" As e { x := 1 } Otherwise { y := 2 } Finally { z := 3 }",
	"FUNC f(a) { RETURN a }\nLet q := f(1)",
	"SINK s1 KindMatch [\"a.b\"], StateMatch {\"k\" : 1}, Priority 1, Suppresses [\"s2\"] { Mutex m { a := 1 } }",
	"Import \"x\" AS y\na := True AND False OR NULL\nb := a NotIn [1] Like \"x\" HasPrefix \"y\" HasSuffix \"z\"",
	"iF a { b := 1 } eLSE { c := 2 }\ntRY { } fINALLY { }\nfUNC g() { rETURN }",
	"if a { b := 1 }",
	"a := {1:2}",
	"for a > 0 { b := {\"x\" : [1,2,3]} }",
	"if a == 1 { m := {1:2, 3:{4:5}} } elif b { c := 1 } else { d := {} }",
	"x := {\"a\" : 1, \"b\" : {\"c\" : [1, {2:3}]}}",
	"for [k, v] in {1:2} { if k { x := {k:v} } }",
	"func f(a, b=1) { return {a:b} }\nif f(1)[1] == 1 { y := 1 }",
	"try { if a { raise(\"E\") } } except e { m := {1:e} } finally { n := {} }",
	"sink s1 kindmatch [\"a.b\"], statematch {\"k\":1}, priority 1 { if event { m := {1:2} } }",
	"a := \"x{{ {1:2}[1] }}y\"",
	"mutex m1 { for i in range(1,3) { q := {i:i} } }",
	"a := {1:2",
	"if a { b := 1",
	"for { }",
	"if { a := 1 }",
	"a := [1, {2:3}, if]",
	"a := \"one\\\\two\\\\three\\n\"\nb := 'single \"quoted\" string'",
	"c := \"tab\\there\" + \"quote \\\" inside\"\nd := \"uni\\u00e4code\"",
	"e := 'x\\ny' + \"{{1 + 2}}\\t{{e}}\"\nf := r\"raw \\n {{x}}\"",
	"foo(x)[y]\nbar := baz\n[1, 2]",
	"x := a.b.c(1, 2)[3].d\ny := [x\n, 2]",
}

func init() {
	c13Corpus = append(c13Corpus, c07Corpus...)
	c13Corpus = append(c13Corpus, c08Corpus...)
}

func parseResult(text string, erp *interpreter.ECALRuntimeProvider) string {
	var ast *parser.ASTNode
	var err error
	if erp != nil {
		ast, err = parser.ParseWithRuntime("c13", text, erp)
	} else {
		ast, err = parser.Parse("c13", text)
	}
	if err != nil {
		return "ERR " + err.Error()
	}
	return "AST " + ast.String()
}

// c13FreeChild: concurrent parses (and evaluations with string interpolation) of the corpus, compared
// with the sequential results. Prints one JSON record per (goroutine, text) with a mismatch count.
func c13FreeChild(args []string) {
	verifhook.Set(func(string, ...interface{}) {})
	workers, rounds := 8, 300
	fmt.Sscan(os.Getenv("VERIF_C13_WORKERS"), &workers)
	fmt.Sscan(os.Getenv("VERIF_C13_ROUNDS"), &rounds)
	erp := interpreter.NewECALRuntimeProvider("c13", nil, util.NewMemoryLogger(10))
	erp.Cron.Stop()
	// a second provider has a debugger attached (nothing is ever suspended: no breakpoints): parsing and evaluating
	// then also goes through the debugger's bookkeeping of sources, under source names which keep changing
	erpDbg := interpreter.NewECALRuntimeProvider("c13d", nil, util.NewMemoryLogger(10))
	erpDbg.Cron.Stop()
	erpDbg.Debugger = interpreter.NewECALDebugger(scope.NewScope(scope.GlobalScope))
	var srcCtr int64
	evalSrc := "a := 1\nb := \"v{{a + 1}}w{{ {1:2}[1] }}\"\nif a == 1 { c := {1:b} }\nc"
	evalOnce := func() string {
		if n := atomic.AddInt64(&srcCtr, 1); n%2 == 0 {
			// construction of the runtime components through the provider with the debugger (not evaluated: what the
			// debugger does while a program RUNS is the subject of C15, not of C13)
			if dast, err := parser.ParseWithRuntime(fmt.Sprintf("c13e-%d", n%64), evalSrc, erpDbg); err != nil {
				return "ERR " + err.Error()
			} else if err := dast.Runtime.Validate(); err != nil {
				return "ERR " + err.Error()
			}
		}
		ast, err := parser.ParseWithRuntime("c13e", evalSrc, erp)
		if err != nil {
			return "ERR " + err.Error()
		}
		if err := ast.Runtime.Validate(); err != nil {
			return "ERR " + err.Error()
		}
		res, err := ast.Runtime.Eval(scope.NewScope(scope.GlobalScope), make(map[string]interface{}), erp.NewThreadID())
		return fmt.Sprint(res, err)
	}
	type rec struct {
		Ev       string `json:"ev"`
		Text     string `json:"text"`
		Mode     string `json:"mode"`
		Runs     int    `json:"runs"`
		Mismatch int    `json:"mismatch"`
		Example  string `json:"example"`
		Seq      string `json:"seq"`
	}
	// The concurrent phase comes FIRST: the very first parses of the process overlap (whatever the parser sets up lazily
	// on first use is set up by several goroutines at once); what one parse on its own gives is computed afterwards.
	var mu sync.Mutex
	got := map[string]map[string]int{} // mode|text -> result -> count
	note := func(text, mode, res string) {
		mu.Lock()
		k := mode + "|" + text
		if got[k] == nil {
			got[k] = map[string]int{}
		}
		got[k][res]++
		mu.Unlock()
	}
	var wg sync.WaitGroup
	start := make(chan struct{})
	for w := 0; w < workers; w++ {
		w := w
		wg.Add(1)
		go func() {
			defer wg.Done()
			rng := rand.New(rand.NewSource(int64(w) + 1))
			<-start
			for k := 0; k < rounds; k++ {
				t := c13Corpus[rng.Intn(len(c13Corpus))]
				switch (w + k) % 3 {
				case 0:
					note(t, "parse", parseResult(t, nil))
				case 1:
					if k%2 == 0 {
						note(t, "parse+runtime", parseResult(t, erp))
					} else {
						note(t, "parse+runtime", parseResult(t, erpDbg))
					}
				default:
					note(evalSrc, "eval", evalOnce())
				}
			}
		}()
	}
	close(start)
	wg.Wait()
	recs := map[string]*rec{}
	for k, results := range got {
		parts := strings.SplitN(k, "|", 2)
		mode, text := parts[0], parts[1]
		var want string
		switch mode {
		case "parse":
			want = parseResult(text, nil)
		case "parse+runtime":
			want = parseResult(text, erp)
		default:
			want = evalOnce()
		}
		r := &rec{Ev: "parse", Text: text, Mode: mode, Seq: want}
		for res, n := range results {
			r.Runs += n
			if res != want {
				r.Mismatch += n
				if r.Example == "" {
					r.Example = res
				}
			}
		}
		recs[k] = r
	}
	out := bufio.NewWriter(os.Stdout)
	for _, r := range recs {
		b, _ := json.Marshal(r)
		fmt.Fprintf(out, "C13REC %s\n", b)
	}
	out.Flush()
}

var raceBlockRe = regexp.MustCompile(`(?s)WARNING: DATA RACE.*?==================`)

// C13 is the driver of property C13.
func C13(r *ev.Run) {
	tier := r.Tier
	r.Assume("the race detector run uses the same concurrent workload in a -race build; only reports with frames in parser/ or interpreter/ count")

	// 1. TLC: per-parser mode is safe; the shared table entry (code as found) is refuted twice
	jobs := []*MCJob{
		{Name: "ParseShared/local", Opt: tlc.Options{Module: "MCParseShared", Config: "ParseShared_local.cfg", Timeout: 5 * time.Minute, Workers: 2}},
		{Name: "ParseShared/global/seen", Opt: tlc.Options{Module: "MCParseShared", Config: "ParseShared_global_seen.cfg", Timeout: 5 * time.Minute, Workers: 1}},
		{Name: "ParseShared/global/table", Opt: tlc.Options{Module: "MCParseShared", Config: "ParseShared_global_table.cfg", Timeout: 5 * time.Minute, Workers: 1}},
	}
	if !runMCParallel(r, jobs, 3) {
		return
	}
	if !jobs[0].Res.OK {
		r.Inconclusive("ParseShared model refuted: " + jobs[0].Res.Describe())
		return
	}
	var ces []string
	for _, j := range jobs[1:] {
		p := j.Res.Printed("BEHAVIOUR")
		if len(p) == 0 || j.Res.Violated == "" {
			r.Inconclusive("self-test: TLC did not refute the shared table entry: " + j.Res.Describe())
			return
		}
		ces = append(ces, p...)
	}
	r.Set("selftest_shared_table_refuted", true)

	var trace []interface{}
	type recT = map[string]interface{}
	var recs []recT
	addRec := func(rc recT) {
		trace = append(trace, rc)
		recs = append(recs, rc)
	}

	// 2. direction A: the counterexamples followed on the real parser through the brace-mode gates
	verifhook.Set(func(string, ...interface{}) {})
	seq := map[string]string{}
	for p, t := range c13Texts {
		seq[p] = parseResult(t, nil)
	}
	for ci, js := range ces {
		var steps [][]string
		if json.Unmarshal([]byte(js), &steps) != nil {
			r.Inconclusive("cannot parse counterexample")
			return
		}
		s := sched.New(true)
		s.IsGate = func(p string, a []interface{}) bool {
			return p == "parser.lbrace.override" || p == "parser.lbrace.restore"
		}
		verifhook.Set(s.Handle)
		var mu sync.Mutex
		got := map[string]string{}
		for p, t := range c13Texts {
			p, t := p, t
			s.Spawn(p, func() {
				res := parseResult(t, nil)
				mu.Lock()
				got[p] = res
				mu.Unlock()
			})
		}
		var schedule []string
		drift := ""
		for _, stp := range steps {
			if stp[1] == "brace" && stp[0] != "mapp" {
				continue // consulted inside the region that ends at the restore gate
			}
			st, err := s.WaitStable()
			if err != nil {
				r.Inconclusive("follow: " + err.Error())
				return
			}
			ts, ok := st.Get(stp[0])
			if !ok || ts.Parked == "" {
				drift = fmt.Sprintf("step %v: parser goroutine is not at a gate", stp)
				break
			}
			schedule = append(schedule, stp[0]+":"+stp[1])
			s.Release(stp[0])
		}
		// let everything finish
		for k := 0; k < 20; k++ {
			st, err := s.WaitStable()
			if err != nil {
				break
			}
			p := st.Parked()
			if len(p) == 0 {
				break
			}
			s.Release(p[0])
		}
		verifhook.Set(func(string, ...interface{}) {})
		s.OpenAll()
		s.WaitDone([]string{"ifp", "forp", "mapp"}, 5*time.Second)
		if drift != "" {
			r.Drift(drift)
		}
		mu.Lock()
		for p := range c13Texts {
			addRec(recT{"ev": "parse", "text": c13Texts[p], "mode": fmt.Sprintf("followed counterexample %d %v", ci, schedule), "runs": 1,
				"mismatch": b2i(got[p] != seq[p]), "example": got[p], "seq": seq[p]})
		}
		mu.Unlock()
		// the table must be what it was: a sequential probe afterwards
		for p, t := range c13Texts {
			after := parseResult(t, nil)
			addRec(recT{"ev": "parse", "text": t, "mode": fmt.Sprintf("sequential probe after counterexample %d", ci), "runs": 1,
				"mismatch": b2i(after != seq[p]), "example": after, "seq": seq[p]})
		}
		r.Case(js, true)
	}
	r.Set("counterexamples_followed", len(ces))

	// 3. direction B: free concurrent parses in a child process (a fatal error of the Go runtime cannot
	//    be recovered), plain and in a -race build
	runChild := func(bin string, workers, rounds int) (out string, code int, err error) {
		cmd := exec.Command(bin, "C13")
		cmd.Env = append(os.Environ(), "VERIF_CHILD=c13free", fmt.Sprintf("VERIF_C13_WORKERS=%d", workers), fmt.Sprintf("VERIF_C13_ROUNDS=%d", rounds), "GORACE=halt_on_error=0")
		b, e := cmd.CombinedOutput()
		if ee, ok := e.(*exec.ExitError); ok {
			return string(b), ee.ExitCode(), nil
		}
		return string(b), 0, e
	}
	self, _ := os.Executable()
	for _, w := range []int{2, 8, 16} {
		out, code, err := runChild(self, w, pick(tier, 600, 40000))
		if err != nil {
			r.Inconclusive("cannot run child: " + err.Error())
			return
		}
		if strings.Contains(out, "fatal error: concurrent map") {
			r.Violation("C13 fatal concurrent map access in the parser", "concurrent parsing killed the process: "+firstLineWith(out, "fatal error"), map[string]interface{}{"workers": w, "corpus": c13Corpus, "output_head": headStr(out, 3000)})
			continue
		}
		if code != 0 {
			if strings.Contains(out, "github.com/krotik/ecal/") && crashLine(out) != "" {
				r.Violation("C13 process crash during concurrent parsing: "+crashLine(out), "concurrent parsing killed the process", map[string]interface{}{"workers": w, "output_head": headStr(out, 3000)})
				continue
			}
			r.Inconclusive(fmt.Sprintf("child ended with %d: %s", code, headStr(out, 500)))
			return
		}
		n := 0
		for _, l := range strings.Split(out, "\n") {
			if strings.HasPrefix(l, "C13REC ") {
				var rc recT
				if json.Unmarshal([]byte(l[7:]), &rc) == nil {
					rc["mode"] = fmt.Sprintf("%v free w=%d", rc["mode"], w)
					addRec(rc)
					n++
				}
			}
		}
		r.Case(fmt.Sprintf("free w=%d", w), n > 1)
	}
	// race build
	raceBin := "/verif/bin/vcheck-race"
	build := exec.Command("go", "build", "-race", "-tags", "verif", "-o", raceBin, "./cmd/vcheck")
	build.Dir = "/verif/harness"
	if b, err := build.CombinedOutput(); err != nil {
		r.Inconclusive("cannot build the -race harness: " + headStr(string(b), 400))
		return
	}
	out, _, err := runChild(raceBin, 8, pick(tier, 300, 15000))
	if err != nil {
		r.Inconclusive("cannot run race child: " + err.Error())
		return
	}
	races := 0
	for _, blk := range raceBlockRe.FindAllString(out, -1) {
		if strings.Contains(blk, "github.com/krotik/ecal/parser") || strings.Contains(blk, "github.com/krotik/ecal/interpreter") {
			races++
			if races == 1 {
				r.Violation("C13 data race in "+raceSite(blk), "the race detector reports a data race inside the parser / runtime construction under concurrent parsing", map[string]interface{}{"report": headStr(blk, 4000)})
			}
		}
	}
	r.Set("race_reports_in_parser_or_interpreter", races)
	r.Case("race build w=8", true)

	// 4. validation by TLC
	bad, ok := validateTrace(r, "ParseShared_Trace", "ParseShared_Trace.cfg", trace, 10*time.Minute)
	if !ok {
		return
	}
	r.AddTraces(int64(len(recs) - len(bad)))
	for _, idx := range bad {
		rc := recs[idx-1]
		sig := "C13 concurrent parse result differs from the sequential result"
		if strings.Contains(fmt.Sprint(rc["mode"]), "sequential probe") {
			sig = "C13 parser state corrupted after concurrent parses"
		}
		b, _ := json.Marshal(rc)
		r.Violation(sig, "record rejected by ParseShared_Trace: "+headStr(string(b), 1500), rc)
	}
	if len(recs) > 0 {
		r.Sample(recs[0])
		r.Sample(recs[len(recs)-1])
	}
}

func b2i(b bool) int {
	if b {
		return 1
	}
	return 0
}

func headStr(s string, n int) string {
	if len(s) > n {
		return s[:n]
	}
	return s
}

func firstLineWith(s, sub string) string {
	for _, l := range strings.Split(s, "\n") {
		if strings.Contains(l, sub) {
			return l
		}
	}
	return ""
}

func crashLine(s string) string {
	for _, l := range strings.Split(s, "\n") {
		if strings.HasPrefix(l, "panic: ") || strings.HasPrefix(l, "fatal error: ") {
			return l
		}
	}
	return ""
}

var raceSiteRe = regexp.MustCompile(`github\.com/krotik/ecal/(parser|interpreter)\.[^\s(]+`)

func raceSite(blk string) string {
	if m := raceSiteRe.FindString(blk); m != "" {
		return m
	}
	return "parser/interpreter"
}
