//go:build verif

package props

import (
	"math/rand"
	"testing"
	"time"

	"verif/harness/sched"
)

func TestPoolExploreSpeed(t *testing.T) {
	rng := rand.New(rand.NewSource(1))
	for _, sc := range poolScenarios("quick")[:4] {
		t0 := time.Now()
		steps := 0
		for k := 0; k < 50; k++ {
			rr := runPoolExplore(sc, &sched.RandomChooser{R: rng})
			if rr.Err != nil {
				t.Fatal(rr.Err)
			}
			steps += rr.Outcome.Steps
		}
		t.Logf("%s: 50 runs %v, %d steps", sc.Name, time.Since(t0), steps)
	}
}
