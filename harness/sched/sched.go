// Package sched is the gate scheduler and event recorder of the verification
// harness. The code under test (built with -tags verif) calls
// verifhook.At(point, args...) at its linearisation points; the handler
// installed here records the event and - in controlled mode, for points
// which are declared gates - parks the calling goroutine until the scheduler
// releases it. Only one controlled goroutine runs between two gates, so the
// interleaving of the real goroutines is exactly the sequence of releases.
//
// "Nothing more can happen" is decided from the goroutine wait reasons of the
// Go runtime (runtime.Stack), never from a timeout.
package sched

import (
	"bytes"
	"fmt"
	"math/rand"
	"runtime"
	"sort"
	"strconv"
	"strings"
	"sync"
	"time"
)

// Event is one recorded observation point.
type Event struct {
	Seq   int           `json:"seq"`
	Th    string        `json:"th"`
	Point string        `json:"ev"`
	Args  []interface{} `json:"args,omitempty"`
}

// Thread is a controlled goroutine.
type Thread struct {
	Name     string
	goid     int64
	parkedAt string
	args     []interface{}
	release  chan struct{}
	done     bool
	steps    int
}

// ErrTimeout is returned when the safety-net wall clock bound is hit. It is
// never evidence for a violation (exit 2).
var ErrTimeout = fmt.Errorf("sched: wall-clock safety net reached")

// Scheduler records events and controls goroutines at gates.
type Scheduler struct {
	mu         sync.Mutex
	events     []Event
	threads    map[int64]*Thread
	byName     map[string]*Thread
	controlled bool

	// IsGate decides if a point parks the calling (controlled) goroutine.
	IsGate func(point string, args []interface{}) bool
	// NameOf gives an unknown goroutine which hits a point a thread name
	// ("" = leave the goroutine uncontrolled).
	NameOf func(point string, args []interface{}) string
	// Filter drops events from the record (nil = keep all).
	Filter func(point string) bool

	wake chan struct{}

	// goroutines which existed when the scheduler was created (left over from an earlier run, e.g. workers of a
	// pool which was told to shrink without waiting): they are neither named nor recorded
	old map[int64]bool

	// Bound for WaitStable.
	StableTimeout time.Duration
}

// New creates a scheduler. controlled=false only records (free mode).
func New(controlled bool) *Scheduler {
	old := map[int64]bool{}
	for gid := range GoroutineStates() {
		old[gid] = true
	}
	delete(old, Goid())
	return &Scheduler{
		old:           old,
		threads:       make(map[int64]*Thread),
		byName:        make(map[string]*Thread),
		controlled:    controlled,
		wake:          make(chan struct{}, 1),
		StableTimeout: 20 * time.Second,
	}
}


// Goid returns the id of the calling goroutine.
func Goid() int64 {
	var buf [64]byte
	n := runtime.Stack(buf[:], false)
	// "goroutine 123 [running]:"
	s := buf[10:n]
	i := bytes.IndexByte(s, ' ')
	id, _ := strconv.ParseInt(string(s[:i]), 10, 64)
	return id
}

// Handle is the verifhook handler.
func (s *Scheduler) Handle(point string, args ...interface{}) {
	gid := Goid()
	s.mu.Lock()
	th := s.threads[gid]
	if th == nil && s.old[gid] {
		s.mu.Unlock()
		return
	}
	if th == nil && s.NameOf != nil {
		if name := s.NameOf(point, args); name != "" {
			th = &Thread{Name: name, goid: gid, release: make(chan struct{})}
			s.threads[gid] = th
			s.byName[name] = th
		}
	}
	name := ""
	if th != nil {
		name = th.Name
	} else {
		name = "g" + strconv.FormatInt(gid, 10)
	}
	if s.Filter == nil || s.Filter(point) {
		s.events = append(s.events, Event{Seq: len(s.events) + 1, Th: name, Point: point, Args: normArgs(args)})
	}
	if s.controlled && th != nil && s.IsGate != nil && s.IsGate(point, args) {
		th.parkedAt = point
		th.args = args
		ch := th.release
		s.mu.Unlock()
		select {
		case s.wake <- struct{}{}:
		default:
		}
		<-ch
		return
	}
	s.mu.Unlock()
}

func normArgs(args []interface{}) []interface{} {
	out := make([]interface{}, len(args))
	for i, a := range args {
		switch v := a.(type) {
		case uint64:
			out[i] = int(v)
		case int64:
			out[i] = int(v)
		case uint:
			out[i] = int(v)
		default:
			out[i] = a
		}
	}
	return out
}

// Record adds a harness-level event for the calling goroutine (no gate).
func (s *Scheduler) Record(point string, args ...interface{}) {
	gid := Goid()
	s.mu.Lock()
	name := "g" + strconv.FormatInt(gid, 10)
	if th := s.threads[gid]; th != nil {
		name = th.Name
	}
	s.events = append(s.events, Event{Seq: len(s.events) + 1, Th: name, Point: point, Args: normArgs(args)})
	s.mu.Unlock()
}

// RecordAs adds an event under an explicit thread name (scheduler-side events
// like "quiescent").
func (s *Scheduler) RecordAs(th, point string, args ...interface{}) {
	s.mu.Lock()
	s.events = append(s.events, Event{Seq: len(s.events) + 1, Th: th, Point: point, Args: normArgs(args)})
	s.mu.Unlock()
}

// Gate is a harness-level gate: record and (in controlled mode) park.
func (s *Scheduler) Gate(point string, args ...interface{}) {
	s.Handle(point, args...)
}

// Spawn starts fn as a controlled goroutine with the given name. In
// controlled mode the goroutine parks at the gate "spawn" first.
func (s *Scheduler) Spawn(name string, fn func()) {
	started := make(chan struct{})
	go func() {
		gid := Goid()
		th := &Thread{Name: name, goid: gid, release: make(chan struct{})}
		s.mu.Lock()
		s.threads[gid] = th
		s.byName[name] = th
		if s.controlled {
			th.parkedAt = "spawn" // parked from the moment it is known: there is no state in between
		}
		s.mu.Unlock()
		close(started)
		defer func() {
			s.mu.Lock()
			th.done = true
			s.mu.Unlock()
			select {
			case s.wake <- struct{}{}:
			default:
			}
		}()
		if s.controlled {
			s.mu.Lock()
			ch := th.release
			s.mu.Unlock()
			<-ch
		}
		fn()
	}()
	<-started
}

// Events returns a copy of the record.
func (s *Scheduler) Events() []Event {
	s.mu.Lock()
	defer s.mu.Unlock()
	return append([]Event(nil), s.events...)
}

// ThreadState describes one controlled goroutine in a stable state.
type ThreadState struct {
	Name   string
	Parked string        // gate name, "" if not at a gate
	Args   []interface{} // gate args
	Wait   string        // runtime wait reason if blocked on a primitive
	Done   bool
}

// Stable is the result of WaitStable.
type Stable struct {
	Threads []ThreadState
}

// Parked returns the names of the threads parked at gates (sorted).
func (st *Stable) Parked() []string {
	var r []string
	for _, t := range st.Threads {
		if t.Parked != "" {
			r = append(r, t.Name)
		}
	}
	sort.Strings(r)
	return r
}

// Get returns the state of a named thread.
func (st *Stable) Get(name string) (ThreadState, bool) {
	for _, t := range st.Threads {
		if t.Name == name {
			return t, true
		}
	}
	return ThreadState{}, false
}

// Blocked returns name -> wait reason for threads blocked on a primitive.
func (st *Stable) Blocked() map[string]string {
	r := map[string]string{}
	for _, t := range st.Threads {
		if t.Parked == "" && !t.Done {
			r[t.Name] = t.Wait
		}
	}
	return r
}

// AllDone tells if every controlled thread ended.
func (st *Stable) AllDone() bool {
	for _, t := range st.Threads {
		if !t.Done {
			return false
		}
	}
	return true
}

// blocking wait reasons: a goroutine in one of these cannot proceed on its own.
var blockedReasons = map[string]bool{
	"sync.Cond.Wait": true, "sync.Mutex.Lock": true, "sync.RWMutex.Lock": true,
	"sync.RWMutex.RLock": true, "chan send": true, "chan receive": true,
	"select": true, "semacquire": true, "sync.WaitGroup.Wait": true,
	"chan send (nil chan)": true, "chan receive (nil chan)": true, "select (no cases)": true,
}

// GoroutineStates parses runtime.Stack(all) into goid -> (wait reason, goid of the creating goroutine).
// lockCallerIsScheduler tells if the function which called Mutex.Lock in a goroutine's stack block belongs to this package.
func lockCallerIsScheduler(blk []byte) bool {
	lines := bytes.Split(blk, []byte("\n"))
	for _, l := range lines[1:] {
		if len(l) == 0 || l[0] == '\t' {
			continue
		}
		if bytes.HasPrefix(l, []byte("sync.")) || bytes.HasPrefix(l, []byte("internal/sync.")) || bytes.HasPrefix(l, []byte("runtime.")) || bytes.HasPrefix(l, []byte("internal/runtime")) {
			continue
		}
		return bytes.HasPrefix(l, []byte("verif/harness/sched."))
	}
	return false
}

func GoroutineStates() map[int64][2]string {
	stackMu.Lock()
	defer stackMu.Unlock()
	if stackBuf == nil {
		stackBuf = make([]byte, 1<<16)
	}
	var buf []byte
	for {
		n := runtime.Stack(stackBuf, true)
		if n < len(stackBuf) {
			buf = stackBuf[:n]
			break
		}
		stackBuf = make([]byte, 2*len(stackBuf))
	}
	res := make(map[int64][2]string)
	for len(buf) > 0 {
		var blk []byte
		if i := bytes.Index(buf, []byte("\n\n")); i >= 0 {
			blk, buf = buf[:i], buf[i+2:]
		} else {
			blk, buf = buf, nil
		}
		// "goroutine N [state...
		if !bytes.HasPrefix(blk, []byte("goroutine ")) {
			continue
		}
		rest := blk[10:]
		sp := bytes.IndexByte(rest, ' ')
		if sp < 0 {
			continue
		}
		id, err := strconv.ParseInt(string(rest[:sp]), 10, 64)
		if err != nil {
			continue
		}
		rest = rest[sp+1:]
		if len(rest) == 0 || rest[0] != '[' {
			continue
		}
		end := bytes.IndexAny(rest, ",]")
		if end < 0 {
			continue
		}
		parent := ""
		if k := bytes.LastIndex(blk, []byte(" in goroutine ")); k >= 0 {
			p := blk[k+14:]
			if e := bytes.IndexByte(p, '\n'); e >= 0 {
				p = p[:e]
			}
			parent = string(p)
		}
		state := string(rest[1:end])
		if state == "sync.Mutex.Lock" && lockCallerIsScheduler(blk) {
			// waiting for the scheduler's own mutex (registration, arrival at an observation point): the goroutine
			// is on its way to a gate, it is not blocked by the code under test
			state = "scheduler-internal"
		}
		res[id] = [2]string{state, parent}
	}
	return res
}

var stackMu sync.Mutex
var stackBuf []byte

// WaitStable blocks until every controlled goroutine is parked at a gate,
// blocked on a primitive, or gone.
func (s *Scheduler) WaitStable() (*Stable, error) {
	deadline := time.Now().Add(s.StableTimeout)
	spins := 0
	for {
		s.mu.Lock()
		var pending []*Thread
		for _, th := range s.threads {
			if !th.done && th.parkedAt == "" {
				pending = append(pending, th)
			}
		}
		s.mu.Unlock()
		stable := true
		waits := map[int64]string{}
		{
			gs := GoroutineStates()
			// a goroutine started by a controlled goroutine which has not reached its first
			// observation point yet (and is not blocked) is about to: not stable
			s.mu.Lock()
			for gid, g := range gs {
				if _, known := s.threads[gid]; known || g[1] == "" || blockedReasons[g[0]] {
					continue
				}
				if pg, err := strconv.ParseInt(g[1], 10, 64); err == nil {
					if _, ok := s.threads[pg]; ok && s.NameOf != nil {
						stable = false
					}
				}
			}
			s.mu.Unlock()
			for _, th := range pending {
				g, ok := gs[th.goid]
				if !ok {
					// goroutine ended
					s.mu.Lock()
					th.done = true
					s.mu.Unlock()
					continue
				}
				if blockedReasons[g[0]] {
					waits[th.goid] = g[0]
				} else {
					stable = false
				}
			}
		}
		if stable {
			// re-check under the lock that nothing moved in between
			s.mu.Lock()
			ok := true
			st := &Stable{}
			for _, th := range s.threads {
				ts := ThreadState{Name: th.Name, Parked: th.parkedAt, Args: th.args, Done: th.done}
				if !th.done && th.parkedAt == "" {
					w, have := waits[th.goid]
					if !have {
						ok = false
						break
					}
					ts.Wait = w
				}
				st.Threads = append(st.Threads, ts)
			}
			s.mu.Unlock()
			if ok {
				// A goroutine blocked on a primitive may have been made runnable by the
				// last mover after we sampled it; sample once more to be sure.
				if len(waits) > 0 {
					gs := GoroutineStates()
					for gid, w := range waits {
						if g, have := gs[gid]; !have || g[0] != w {
							ok = false
						}
					}
				}
				if ok {
					sort.Slice(st.Threads, func(i, j int) bool { return st.Threads[i].Name < st.Threads[j].Name })
					return st, nil
				}
			}
		}
		if time.Now().After(deadline) {
			return nil, ErrTimeout
		}
		spins++
		if spins < 50 {
			runtime.Gosched()
		} else {
			select {
			case <-s.wake:
			case <-time.After(50 * time.Microsecond):
			}
		}
	}
}

// Release lets a parked thread run to its next gate.
func (s *Scheduler) Release(name string) error {
	s.mu.Lock()
	th := s.byName[name]
	if th == nil || th.parkedAt == "" {
		s.mu.Unlock()
		return fmt.Errorf("sched: thread %q is not parked", name)
	}
	th.parkedAt = ""
	th.args = nil
	th.steps++
	ch := th.release
	s.mu.Unlock()
	ch <- struct{}{}
	return nil
}

// OpenAll switches to free mode and releases everything that is parked.
func (s *Scheduler) OpenAll() {
	s.mu.Lock()
	s.controlled = false
	var chans []chan struct{}
	for _, th := range s.threads {
		if th.parkedAt != "" {
			th.parkedAt = ""
			chans = append(chans, th.release)
		}
	}
	s.mu.Unlock()
	for _, ch := range chans {
		ch <- struct{}{}
	}
}

// WaitDone waits until the named threads have ended (or the timeout passes).
func (s *Scheduler) WaitDone(names []string, timeout time.Duration) bool {
	deadline := time.Now().Add(timeout)
	for {
		all := true
		s.mu.Lock()
		for _, n := range names {
			if th := s.byName[n]; th != nil && !th.done {
				all = false
			}
		}
		s.mu.Unlock()
		if all {
			return true
		}
		if time.Now().After(deadline) {
			return false
		}
		time.Sleep(50 * time.Microsecond)
	}
}

// Chooser picks the next thread to release among the parked ones.
type Chooser interface {
	Choose(step int, parked []string, st *Stable) string
}

// RandomChooser picks uniformly.
type RandomChooser struct{ R *rand.Rand }

// Choose implements Chooser.
func (c *RandomChooser) Choose(step int, parked []string, st *Stable) string {
	return parked[c.R.Intn(len(parked))]
}

// PCTChooser is a priority based chooser with D priority change points
// (Burckhardt et al., PCT): runs the highest priority parked thread.
type PCTChooser struct {
	// IsPoll marks sampling gates of polling loops: a thread released from such a gate
	// yields (its priority drops below all others), otherwise it would starve the rest.
	IsPoll  func(point string) bool
	R       *rand.Rand
	prio    map[string]int
	changes map[int]bool
	low     int
}

// NewPCT creates a PCT chooser for runs of about n steps with d change points.
func NewPCT(r *rand.Rand, n, d int) *PCTChooser {
	c := &PCTChooser{R: r, prio: map[string]int{}, changes: map[int]bool{}, low: -1}
	for i := 0; i < d; i++ {
		c.changes[r.Intn(n+1)] = true
	}
	return c
}

// Choose implements Chooser.
func (c *PCTChooser) Choose(step int, parked []string, st *Stable) string {
	best := ""
	for _, p := range parked {
		if _, ok := c.prio[p]; !ok {
			c.prio[p] = c.R.Intn(1000) + 10
		}
		if best == "" || c.prio[p] > c.prio[best] {
			best = p
		}
	}
	if c.changes[step] {
		c.prio[best] = c.low
		c.low--
		// re-pick
		best2 := ""
		for _, p := range parked {
			if best2 == "" || c.prio[p] > c.prio[best2] {
				best2 = p
			}
		}
		best = best2
	}
	if c.IsPoll != nil {
		if ts, ok := st.Get(best); ok && c.IsPoll(ts.Parked) {
			c.prio[best] = c.low
			c.low--
		}
	}
	return best
}

// ScriptChooser releases threads in a fixed order, then falls back.
type ScriptChooser struct {
	Script []string
	pos    int
	Then   Chooser
}

// Choose implements Chooser.
func (c *ScriptChooser) Choose(step int, parked []string, st *Stable) string {
	for c.pos < len(c.Script) {
		want := c.Script[c.pos]
		for _, p := range parked {
			if p == want {
				c.pos++
				return p
			}
		}
		// wanted thread is not parked (blocked / done): skip the entry
		c.pos++
	}
	return c.Then.Choose(step, parked, st)
}

// Outcome of a controlled run.
type Outcome struct {
	Steps     int
	Final     *Stable
	Quiescent bool     // nothing parked, not everything done: permanently stuck
	PollStuck bool     // only pollers keep spinning with unchanged samples
	Schedule  []string // the release sequence
}

// Run drives the controlled goroutines until all are done or the system is
// permanently quiescent. isPoll tells which gates are sampling points of
// polling loops (used for poll-stuck detection); maxSteps bounds the run.
func (s *Scheduler) Run(ch Chooser, maxSteps int, isPoll func(point string) bool) (*Outcome, error) {
	out := &Outcome{}
	lastSig := ""
	same := 0
	for step := 0; ; step++ {
		st, err := s.WaitStable()
		if err != nil {
			return out, err
		}
		out.Final = st
		parked := st.Parked()
		if len(parked) == 0 {
			out.Quiescent = !st.AllDone()
			return out, nil
		}
		// poll-stuck detection: all parked threads sit at poll gates with the same
		// samples as before and everything else is blocked
		if isPoll != nil {
			allPoll := true
			var sig []string
			for _, t := range st.Threads {
				if t.Parked != "" {
					if !isPoll(t.Parked) {
						allPoll = false
					}
					sig = append(sig, fmt.Sprint(t.Name, t.Parked, t.Args))
				} else if !t.Done {
					sig = append(sig, t.Name+"~"+t.Wait)
				}
			}
			if allPoll {
				sg := strings.Join(sig, "|")
				if sg == lastSig {
					same++
				} else {
					same = 0
					lastSig = sg
				}
				if same > 40*len(parked) {
					out.PollStuck = true
					return out, nil
				}
			} else {
				same = 0
				lastSig = ""
			}
		}
		if step >= maxSteps {
			return out, fmt.Errorf("sched: step bound %d reached", maxSteps)
		}
		pick := ch.Choose(step, parked, st)
		out.Schedule = append(out.Schedule, pick)
		out.Steps++
		if err := s.Release(pick); err != nil {
			return out, err
		}
	}
}
